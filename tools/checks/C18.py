"""C18: update / find helpers obey their documented laws.

Correspondence O-du: the extracted Coq model of mappyfile/dictutils.py
(coq/Model/DictUtils.v) against the real update / find / findall / findunique /
findkey, comparing results, raised exception classes AND the arguments after
the call.  Hunter: the property stated against the public API with an
independent reference implementation of the documented laws (ref_* below,
written from the property text, operating on canonical plain data)."""
import copy, json, os, itertools
from checklib import codec
from checklib.model import run_model
from checklib.shrink import shrink_list

MANIFEST = dict(
    technique="Coq proofs by induction over the patch / the item list + extracted-model correspondence + reference-implementation hunter",
    text=("Coq theorems (Props/C18.v) on the function-by-function model of dictutils.py (Model/DictUtils.v): for update, universally over d1, the patch and both "
          "overwrite modes (structural induction over the patch): the result is d1's own class; frame (unmentioned keys keep value and relative position, new keys are appended in patch order), "
          "frame at every depth along dict paths, scalar_replace, no_overwrite, new_key, dict_merge_recursive, list_zip against an index-based specification "
          "(None skips, extras appended, flagged items dropped), delete_key / delete_object / delete_item / delete at the root, totality under shape compatibility; "
          "for find / findall / findunique / findkey: first match, filter in list order, sorted distinct, path lookup, and 'items lacking the key are skipped and left unchanged' "
          "where true (findunique; find/findall only when every item has the key).  Where the statement is false of the faithful model there is a _refuted theorem with a concrete witness "
          "(findall substring matching, falsy values skipped, TypeError from the in operator, auto-creation and KeyError on items lacking the key, the delete marker stored for an absent key) "
          "next to the strongest guarded theorem.  The model is tied to the source on every run by executing the extracted model and the real functions on exhaustive small scopes, "
          "structured random dictionaries / patches (plain, DefaultOrderedDict and Mapfile dicts incl. mappyfile.loads snippets) and comparing results, exception classes and the arguments after the call."),
    design_ref="DESIGN.md 7/C18",
    note=("C18: Python ==, truthiness, in, sorted, set are modelled (py_eqb, truthy, py_in, py_sorted, dedupe in Model/DictUtils.v); the partially updated d1 after an exception inside update is not modelled "
          "(only the exception class is compared); aliasing between d1 and d2 after update is not modelled (value-level model); tuples are identified with lists."))

COMPONENTS = ["dictutils"]
TARGETS = []
RULE = ("regression corpus + known-finding inputs first; update: every (d1 slot value x patch slot value) pair over one key and a sampled product over two case-variant keys, x both overwrite modes x plain/Mapfile dict; "
        "then random nested dicts (depth <= 3, classes dict/DefaultOrderedDict/CaseInsensitiveOrderedDict with and without factory, mappyfile.loads snippets) with patches derived from their structure "
        "(unmentioned keys, scalar replacement, '__delete__' values, flagged dicts, nested patches, list patches with None placeholders / flagged items / extra items, new keys, case-variant keys, shape mismatches); "
        "find/findall/findunique: lists of 0-5 objects with and without the searched key over a value pool with substrings, falsy values, ints, bools; asked value a scalar or a list of values; "
        "findkey: valid paths of every object plus perturbed ones.  non-trivial = the call changes/returns something or involves >= 2 items/keys; distinct by repr of the case.")

FN = {"update": 1, "find": 2, "findall": 3, "findunique": 4, "findkey": 5}
EXN = {"IndexError": 4, "KeyError": 5, "AttributeError": 6, "TypeError": 7, "ValueError": 8}
ROOT = os.path.dirname(os.path.dirname(os.path.dirname(os.path.abspath(__file__))))


# ------------------------------------------------------------------ specs
# A case value ("spec") is JSON: scalars, lists, and dicts written
# {"c": class code, "i": [[key, value], ...]} (class codes as in Lib/Codec.v).
def D(c, *pairs):
    return {"c": c, "i": [[k, v] for k, v in pairs]}


def build(s):
    """spec -> fresh real Python objects"""
    from mappyfile.ordereddict import CaseInsensitiveOrderedDict as CI, DefaultOrderedDict as DD
    if isinstance(s, dict):
        pairs = [(k, build(v)) for k, v in s["i"]]
        c = s["c"]
        if c == 1:
            return DD(None, pairs)
        if c == 2:
            return DD(CI, pairs)
        if c == 3:
            return CI(None, pairs)
        if c == 4:
            return CI(CI, pairs)
        return dict(pairs)
    if isinstance(s, (list, tuple)):
        return [build(x) for x in s]
    return s


def to_spec(o):
    """real objects -> spec (tuples become lists)"""
    if isinstance(o, dict):
        return {"c": codec.cls_code(o), "i": [[k, to_spec(v)] for k, v in o.items()]}
    if isinstance(o, (list, tuple)):
        return [to_spec(x) for x in o]
    return o


def is_d(s):
    return isinstance(s, dict)


def exn_of(ex):
    n = type(ex).__name__
    return ("err", EXN.get(n, n))


# ------------------------------------------------------------------ implementation side
def impl_update(d1s, d2s, ow):
    import mappyfile
    d1 = build(d1s); d2 = build(d2s)
    d2_before = repr(codec.canon(d2)); d1_before = repr(codec.canon(d1))
    try:
        r = mappyfile.update(d1, d2, ow)
        out = ("ok", codec.canon(r))
        same = r is d1
    except Exception as ex:
        out = exn_of(ex); same = None
    return {"out": out, "same_object": same, "d1_after": codec.canon(d1), "d1_before": d1_before,
            "d2_changed": repr(codec.canon(d2)) != d2_before}


def impl_find(fn, lsts, key, want):
    import mappyfile
    lst = build(lsts); w = build(want)
    try:
        r = getattr(mappyfile, fn)(lst, key, w)
        out = ("ok", codec.canon(r))
    except Exception as ex:
        out = exn_of(ex)
    return {"out": out, "after": codec.canon(lst)}


def impl_findunique(lsts, key):
    import mappyfile
    lst = build(lsts)
    try:
        out = ("ok", codec.canon(mappyfile.findunique(lst, key)))
    except Exception as ex:
        out = exn_of(ex)
    return {"out": out, "after": codec.canon(lst)}


def impl_findkey(ds, path):
    import mappyfile
    d = build(ds)
    try:
        out = ("ok", codec.canon(mappyfile.findkey(d, *path)))
    except Exception as ex:
        out = exn_of(ex)
    return {"out": out, "after": codec.canon(d)}


# ------------------------------------------------------------------ model side
def enc_case(case):
    fn = case["fn"]
    if fn == "update":
        return [1 if case["ow"] else 0] + codec.enc_value(build(case["d1"])) + codec.enc_value(build(case["d2"]))
    if fn in ("find", "findall"):
        return codec.enc_value(build(case["lst"])) + codec.enc_str(case["key"]) + codec.enc_value(build(case["want"]))
    if fn == "findunique":
        return codec.enc_value(build(case["lst"])) + codec.enc_str(case["key"])
    if fn == "findkey":
        out = codec.enc_value(build(case["d"])) + [len(case["path"])]
        for p in case["path"]:
            out += ([0] + codec.enc_str(p)) if isinstance(p, str) else [1, p]
        return out
    raise ValueError(fn)


def dec_res(rd):
    tag = rd.z()
    if tag == 0:
        return ("ok", rd.value())
    return ("err", rd.z())


def dec_model(case, toks):
    if toks == [-1]:
        return {"out": ("badinput",)}
    rd = codec.Reader(toks)
    fn = case["fn"]
    if fn in ("update", "findunique"):
        return {"out": dec_res(rd)}
    after = rd.value()
    return {"after": after, "out": dec_res(rd)}


def run_impl(case):
    fn = case["fn"]
    if fn == "update":
        return impl_update(case["d1"], case["d2"], case["ow"])
    if fn in ("find", "findall"):
        return impl_find(fn, case["lst"], case["key"], case["want"])
    if fn == "findunique":
        return impl_findunique(case["lst"], case["key"])
    return impl_findkey(case["d"], case["path"])


def corr_diff(case, im, mo):
    """None, or a short description of the model/implementation disagreement."""
    if repr(im["out"]) != repr(mo["out"]):
        return "result: impl %r model %r" % (im["out"], mo["out"])
    if case["fn"] == "update":
        # on success the returned object is d1 itself unless the root was deleted
        return None
    if "after" in mo and repr(im["after"]) != repr(mo["after"]):
        return "arguments after the call: impl %r model %r" % (im["after"], mo["after"])
    return None


# ------------------------------------------------------------------ reference (oracle)
class Unspec(Exception):
    """the property text does not say what happens on this input"""


def strip(c):
    """canonical value without dict class tags"""
    if isinstance(c, tuple) and c and c[0] == "dict":
        return ("dict", [(k, strip(v)) for k, v in c[2]])
    if isinstance(c, list):
        return [strip(x) for x in c]
    return c


def cdict(c):
    return isinstance(c, tuple) and len(c) == 3 and c[0] == "dict"


def cnorm(cls, k):
    return k.lower() if cls in (3, 4) else k


def clookup(c, k):
    """(present, value) for key k in canonical dict c, by the dict's own key rule"""
    kk = cnorm(c[1], k)
    for k2, v in c[2]:
        if k2 == kk:
            return True, v
    return False, None


def flagged(c):
    if not cdict(c):
        return False
    p, v = clookup(c, "__delete__")
    if not p:
        return False
    if v is not True:
        raise Unspec("__delete__ carried with a value other than True")
    return True


def ref_update(d1, d2, ow):
    """Reference for update on canonical values: returns the canonical result."""
    if not cdict(d1) or not cdict(d2):
        raise Unspec("non-dict argument")
    if flagged(d2):
        return ("dict", 0, [])
    cls = d1[1]
    items = list(d1[2])
    nks = [cnorm(cls, k) for k, _ in d2[2]]
    if len(set(nks)) != len(nks):
        raise Unspec("the patch mentions the same (case-folded) key twice")

    def idx(kk):
        for i, (k2, _) in enumerate(items):
            if k2 == kk:
                return i
        return None

    def put(kk, v):
        i = idx(kk)
        if i is None:
            items.append((kk, v))
        else:
            items[i] = (kk, v)

    for k, v in d2[2]:
        kk = cnorm(cls, k)
        i = idx(kk)
        if cdict(v):
            if flagged(v):
                if i is None:
                    raise Unspec("object deletion of an absent key")
                del items[i]
            else:
                if i is None:
                    old = ("dict", 0, [])
                else:
                    old = items[i][1]
                    if not cdict(old):
                        raise Unspec("dict patched onto a non-dict")
                put(kk, ref_update(old, v, ow))
        elif isinstance(v, list) and all(x is None or cdict(x) for x in v):
            old = [] if i is None else items[i][1]
            if not isinstance(old, list):
                raise Unspec("object list patched onto a non-list")
            out = []
            for j in range(max(len(old), len(v))):
                n = v[j] if j < len(v) else None
                if j < len(old):
                    o = old[j]
                    if o is None:
                        raise Unspec("None inside d1's list")
                else:
                    if n is None:
                        raise Unspec("None placeholder past the end of d1's list")
                    o = ("dict", 0, [])
                if n is None:
                    out.append(o)
                elif flagged(n):
                    continue
                else:
                    if not cdict(o):
                        raise Unspec("dict patched onto a non-dict list item")
                    out.append(ref_update(o, n, ow))
            put(kk, out)
        elif v == "__delete__":
            if i is not None:
                del items[i]
            # absent: the key stays absent
        else:
            if ow or i is None:
                put(kk, v)
    return ("dict", cls, items)


def cnum(c):
    """canonical number -> Fraction (bools are ints), else None"""
    from fractions import Fraction
    if isinstance(c, bool):
        return Fraction(int(c))
    if isinstance(c, int):
        return Fraction(c)
    if isinstance(c, tuple) and len(c) == 3 and c[0] == "float":
        return Fraction(c[1]) * (Fraction(10) ** c[2])
    return None


def ceq(a, b):
    """Python == on canonical scalars / lists (floats are kept as decimal tuples)"""
    na, nb = cnum(a), cnum(b)
    if na is not None or nb is not None:
        return na is not None and nb is not None and na == nb
    if isinstance(a, list) and isinstance(b, list):
        return len(a) == len(b) and all(ceq(x, y) for x, y in zip(a, b))
    return type(a) is type(b) and a == b


def item_value(c, key):
    if not cdict(c):
        raise Unspec("item is not a dict")
    return clookup(c, key.lower())


def ref_find(lst, key, want):
    for it in lst:
        p, v = item_value(it, key)
        if p and ceq(v, want):
            return it
    return None


def ref_findall(lst, key, want):
    out = []
    for it in lst:
        p, v = item_value(it, key)
        if p and (any(ceq(v, w) for w in want) if isinstance(want, list) else ceq(v, want)):
            out.append(it)
    return out


def ref_findunique(lst, key):
    vals = []
    for it in lst:
        p, v = item_value(it, key)
        if p and v is not None:
            vals.append(v)
    if not (all(isinstance(v, str) for v in vals) or all(isinstance(v, int) and not isinstance(v, bool) for v in vals)):
        raise Unspec("values of mixed / unordered kinds")
    return sorted(set(vals))


def ref_findkey(d, path):
    cur = d
    for p in path:
        if isinstance(p, str):
            if not cdict(cur):
                raise Unspec("key step on a non-dict")
            pr, v = clookup(cur, p)
            if not pr:
                raise Unspec("missing key on the path")
            cur = v
        else:
            if not isinstance(cur, list) or not (-len(cur) <= p < len(cur)):
                raise Unspec("index step outside a list")
            cur = cur[p]
    return cur


# ------------------------------------------------------------------ hunter
def first_diff_kind(res, exp, patch, d1, ow):
    """Name the law that fails first where res (implementation) differs from exp (reference)."""
    if not (cdict(res) and cdict(exp)):
        return "result-shape"
    pk = {}
    if cdict(patch):
        for k, v in patch[2]:
            pk[cnorm(res[1], k)] = v
    rk = [k for k, _ in res[2]]; ek = [k for k, _ in exp[2]]
    rd = dict(res[2]); ed = dict(exp[2])
    for k in list(dict.fromkeys(ek + rk)):
        inr, ine = k in rd, k in ed
        if inr and ine and repr(strip(rd[k])) == repr(strip(ed[k])):
            continue
        pv = pk.get(k, "<unmentioned>")
        if pv == "<unmentioned>":
            return "frame"
        if pv == "__delete__":
            if inr and not ine and rd[k] == "__delete__" and not (cdict(d1) and clookup(d1, k)[0]):
                return "delete-marker-stored-when-absent"
            return "delete-key"
        if cdict(pv):
            try:
                if flagged(pv):
                    return "delete-object"
            except Unspec:
                pass
            if inr and ine:
                sub1 = clookup(d1, k)[1] if cdict(d1) and clookup(d1, k)[0] else ("dict", 0, [])
                return first_diff_kind(rd[k], ed[k], pv, sub1, ow)
            return "dict-merge"
        if isinstance(pv, list) and all(x is None or cdict(x) for x in pv):
            return "list-zip"
        return "scalar-replace" if (ow or not (cdict(d1) and clookup(d1, k)[0])) else "no-overwrite"
    if rk != ek:
        return "key-order"
    return "other"


def drop_markers(res, exp):
    """res without the entries whose value is the literal '__delete__' and whose key the reference does not have"""
    if cdict(res) and cdict(exp):
        ed = dict(exp[2])
        return ("dict", res[1], [(k, drop_markers(v, ed[k]) if k in ed else v) for k, v in res[2]
                                 if not (v == "__delete__" and k not in ed)])
    if isinstance(res, list) and isinstance(exp, list) and len(res) == len(exp):
        return [drop_markers(r, e) for r, e in zip(res, exp)]
    return res


def hunt_update(case):
    """list of (fingerprint, what) for this case; [] if the implementation obeys the reference."""
    im = impl_update(case["d1"], case["d2"], case["ow"])
    d1c = codec.canon(build(case["d1"])); d2c = codec.canon(build(case["d2"]))
    try:
        exp = ref_update(d1c, d2c, case["ow"])
    except Unspec:
        return None
    out = []
    if im["out"][0] == "err":
        return [("update:unexpected-exception-%s" % im["out"][1], "update raised (exception code %s) where the documented behaviour is %r" % (im["out"][1], strip(exp)))]
    res = im["out"][1]
    if repr(strip(res)) != repr(strip(exp)):
        if repr(strip(drop_markers(res, exp))) == repr(strip(exp)):
            kind = "delete-marker-stored-when-absent"
        else:
            kind = first_diff_kind(res, exp, d2c, d1c, case["ow"])
        out.append(("update:" + kind, "update(%r, %r, overwrite=%r) returned %r, documented laws give %r"
                    % (strip(d1c), strip(d2c), case["ow"], strip(res), strip(exp))))
    try:
        root_deleted = flagged(d2c)
    except Unspec:
        root_deleted = False
    if not root_deleted:
        if im["same_object"] is False:
            out.append(("update:not-in-place", "update did not return d1 itself"))
        if repr(im["d1_after"]) != repr(res):
            out.append(("update:d1-state", "d1 after the call differs from the returned dictionary"))
    if im["d2_changed"]:
        out.append(("update:d2-mutated", "update changed its second argument"))
    return out


def lacking_autocreate(before, after, key):
    """True if `after` is `before` with only the searched key added to items that lacked it."""
    if len(before) != len(after):
        return False
    changed = False
    for b, a in zip(before, after):
        if repr(b) == repr(a):
            continue
        if not (cdict(b) and cdict(a)) or b[1] != a[1]:
            return False
        kk = key.lower()
        if [x for x in a[2] if x[0] != kk] != list(b[2]) and list(a[2])[:len(b[2])] != list(b[2]):
            return False
        if len(a[2]) != len(b[2]) + 1 or a[2][-1][0] != kk:
            return False
        changed = True
    return changed


def hunt_find(case):
    fn = case["fn"]
    lstc = codec.canon(build(case["lst"])); want = codec.canon(build(case["want"]))
    key = case["key"]
    if cdict(want) or (isinstance(want, list) and (fn == "find" or any(isinstance(w, (list, tuple)) and not (len(w) == 3 and w[0] == "float") for w in want))):
        return None   # asked value: a scalar, or (findall) a list of scalars
    try:
        exp = ref_find(lstc, key, want) if fn == "find" else ref_findall(lstc, key, want)
        for it in lstc:
            v = item_value(it, key)[1]
            if isinstance(v, list) or cdict(v):
                return None   # container-valued item values: equality with the asked value is not what the text is about
    except Unspec:
        return None
    im = impl_find(fn, case["lst"], key, case["want"])
    out = []
    if repr(im["after"]) != repr(lstc):
        if lacking_autocreate(lstc, im["after"], key):
            out.append(("%s:lacking-key-autocreate" % fn, "%s(lst, %r, %r) inserted the searched key into items lacking it: %r -> %r"
                        % (fn, key, want, strip(lstc), strip(im["after"]))))
        else:
            out.append(("%s:arguments-mutated" % fn, "%s changed its list argument: %r -> %r" % (fn, strip(lstc), strip(im["after"]))))
    if im["out"][0] == "err":
        code = im["out"][1]
        lacking = any(not item_value(it, key)[0] for it in lstc)
        if code == 5 and lacking:
            out.append(("%s:lacking-key-keyerror" % fn, "%s(lst, %r, %r) raised KeyError on an item lacking the key; lst=%r" % (fn, key, want, strip(lstc))))
        elif code == 7 and fn == "findall":
            out.append(("findall:in-operator-typeerror", "findall(lst, %r, %r) raised TypeError (the in operator applied to the value asked for / a non-string item value); lst=%r"
                        % (key, want, strip(lstc))))
        else:
            out.append(("%s:unexpected-exception-%s" % (fn, code), "%s raised exception code %s; documented result %r" % (fn, code, strip(exp))))
        return out
    res = im["out"][1]
    # compare against the reference on the ORIGINAL items (auto-creation is reported separately)
    if fn == "find":
        res_cmp = res
        if cdict(res):
            # identify the returned item by position in the list after the call
            pos = [i for i, it in enumerate(im["after"]) if repr(it) == repr(res)]
            res_cmp = lstc[pos[0]] if pos else res
        if repr(res_cmp) != repr(exp):
            out.append(("find:wrong-item", "find(lst, %r, %r) returned %r, expected the first item whose key equals the value: %r; lst=%r"
                        % (key, want, strip(res), strip(exp), strip(lstc))))
        return out
    # findall: map returned items back to positions
    after = im["after"]
    got_pos = []
    start = 0
    for r in res:
        for i in range(start, len(after)):
            if repr(after[i]) == repr(r):
                got_pos.append(i); start = i + 1
                break
        else:
            got_pos.append(None)
    exp_pos = []
    start = 0
    for e in exp:
        for i in range(start, len(lstc)):
            if repr(lstc[i]) == repr(e):
                exp_pos.append(i); start = i + 1
                break
    if got_pos != exp_pos:
        extra = [i for i in got_pos if i is not None and i not in exp_pos]
        missing = [i for i in exp_pos if i not in got_pos]
        kinds = set()
        for i in extra:
            v = item_value(lstc[i], key)[1]
            if isinstance(v, str) and isinstance(want, str) and v != want and v in want:
                kinds.add("findall:substring-match")
            else:
                kinds.add("findall:extra-item")
        for i in missing:
            v = item_value(lstc[i], key)[1]
            if v is None or v == "" or v == [] or cnum(v) == 0:
                kinds.add("findall:falsy-value-skipped")
            else:
                kinds.add("findall:missing-item")
        if not kinds:
            kinds.add("findall:wrong-order")
        for kd in sorted(kinds):
            out.append((kd, "findall(lst, %r, %r) returned positions %r, expected %r (items whose key equals the value / is one of the values, in list order); lst=%r"
                        % (key, want, got_pos, exp_pos, strip(lstc))))
    return out


def hunt_findunique(case):
    lstc = codec.canon(build(case["lst"]))
    try:
        exp = ref_findunique(lstc, case["key"])
    except Unspec:
        return None
    im = impl_findunique(case["lst"], case["key"])
    out = []
    if repr(im["after"]) != repr(lstc):
        out.append(("findunique:arguments-mutated", "findunique changed its list argument: %r -> %r" % (strip(lstc), strip(im["after"]))))
    if im["out"][0] == "err":
        out.append(("findunique:unexpected-exception-%s" % im["out"][1], "findunique raised; expected %r; lst=%r" % (exp, strip(lstc))))
    elif repr(im["out"][1]) != repr(exp):
        out.append(("findunique:wrong-result", "findunique(lst, %r) returned %r, expected the sorted distinct values %r; lst=%r" % (case["key"], im["out"][1], exp, strip(lstc))))
    return out


def hunt_findkey(case):
    dc = codec.canon(build(case["d"]))
    try:
        exp = ref_findkey(dc, case["path"])
    except Unspec:
        return None
    im = impl_findkey(case["d"], case["path"])
    out = []
    if repr(im["after"]) != repr(dc):
        out.append(("findkey:arguments-mutated", "findkey changed its argument: %r -> %r" % (strip(dc), strip(im["after"]))))
    if im["out"][0] == "err":
        out.append(("findkey:unexpected-exception-%s" % im["out"][1], "findkey(d, *%r) raised; expected %r" % (case["path"], strip(exp))))
    elif repr(im["out"][1]) != repr(exp):
        out.append(("findkey:wrong-element", "findkey(d, *%r) returned %r, expected %r" % (case["path"], strip(im["out"][1]), strip(exp))))
    return out


def has_cls(s, codes):
    if is_d(s):
        return s["c"] in codes or any(has_cls(v, codes) for _, v in s["i"])
    if isinstance(s, list):
        return any(has_cls(x, codes) for x in s)
    return False


def hunt(case):
    fn = case["fn"]
    # DefaultOrderedDict proper (only __getitem__ folds keys) is not a Mapfile dict: hunter domain is dict + CaseInsensitiveOrderedDict
    if any(has_cls(case.get(f), (1, 2)) for f in ("d1", "d2", "lst", "d", "want")):
        return None
    if fn == "update":
        return hunt_update(case)
    if fn in ("find", "findall"):
        return hunt_find(case)
    if fn == "findunique":
        return hunt_findunique(case)
    return hunt_findkey(case)


def shrink_case(case, fp):
    """Greedy shrinking of the case keeping the fingerprint fp."""
    def still(c):
        try:
            r = hunt(c)
        except Exception:
            return False
        return bool(r) and any(f == fp for f, _ in r)

    c = copy.deepcopy(case)
    if c["fn"] == "update":
        for side in ("d2", "d1"):
            def fails(sub, side=side):
                c2 = copy.deepcopy(c); c2[side]["i"] = sub
                return still(c2)
            c[side]["i"] = shrink_list(c[side]["i"], fails)
        # one level down: shrink nested dict values
        for side in ("d2", "d1"):
            for n, (k, v) in enumerate(c[side]["i"]):
                if is_d(v):
                    def fails2(sub, side=side, n=n):
                        c2 = copy.deepcopy(c); c2[side]["i"][n][1]["i"] = sub
                        return still(c2)
                    c[side]["i"][n][1]["i"] = shrink_list(v["i"], fails2)
    elif c["fn"] in ("find", "findall", "findunique"):
        def fails(sub):
            c2 = copy.deepcopy(c); c2["lst"] = sub
            return still(c2)
        c["lst"] = shrink_list(c["lst"], fails)
        for n, it in enumerate(c["lst"]):
            if is_d(it):
                def fails3(sub, n=n):
                    c2 = copy.deepcopy(c); c2["lst"][n]["i"] = sub
                    return still(c2)
                c["lst"][n]["i"] = shrink_list(it["i"], fails3)
        if c["fn"] == "findall" and isinstance(c.get("want"), list):
            def fails4(sub):
                c2 = copy.deepcopy(c); c2["want"] = sub
                return still(c2)
            c["want"] = shrink_list(c["want"], fails4)
    return c


# ------------------------------------------------------------------ generators
KEYS = ["a", "b", "c", "name", "group", "layers", "styles", "classes", "__type__"]
VARIANTS = {"a": ["A"], "b": ["B"], "name": ["NAME", "Name"], "group": ["GROUP"], "layers": ["LAYERS", "Layers"],
            "styles": ["STYLES"], "classes": ["Classes"], "c": ["C"], "__type__": ["__TYPE__"]}
SCALARS = [1, 0, 2, -3, 7, True, False, None, "x", "road", "roads", "", "ab", "b", 2.5, 1.0, 0.0, "Été", "POINT"]
CLS_ALL = [0, 0, 0, 4, 4, 4, 3, 3, 2, 1]
CLS_MAIN = [0, 0, 4, 4, 3]


def vary(rng, k, p=0.3):
    if rng.random() < p and k in VARIANTS:
        return rng.choice(VARIANTS[k])
    return k


def gen_scalar(rng):
    if rng.random() < 0.04:
        return "__delete__"
    return rng.choice(SCALARS)


def gen_dict(rng, depth, pool, nmax=4):
    n = rng.randrange(0, nmax + 1)
    ks = rng.sample(KEYS, n)
    return D(rng.choice(pool), *[(vary(rng, k, 0.15), gen_val(rng, depth - 1, pool)) for k in ks])


def gen_val(rng, depth, pool):
    r = rng.random()
    if depth <= 0 or r < 0.45:
        return gen_scalar(rng)
    if r < 0.58:
        return [gen_scalar(rng) for _ in range(rng.randrange(0, 4))]
    if r < 0.8:
        return gen_dict(rng, depth, pool, 3)
    out = [gen_dict(rng, depth, pool, 3) for _ in range(rng.randrange(0, 4))]
    if out and rng.random() < 0.08:
        out[rng.randrange(len(out))] = None
    if out and rng.random() < 0.05:
        out[rng.randrange(len(out))] = gen_scalar(rng)
    return out


def is_objlist_spec(v):
    return isinstance(v, list) and all(x is None or is_d(x) for x in v)


def gen_patch(rng, d1, depth, wild):
    """a patch derived from the structure of spec d1"""
    ent = []
    for k, v in d1["i"]:
        if rng.random() < 0.4:
            continue
        ent.append([vary(rng, k), patch_for(rng, v, depth, wild)])
    for _ in range(rng.choice([0, 0, 1, 1, 2])):
        k = vary(rng, rng.choice(KEYS))
        r = rng.random()
        if r < 0.5:
            v = gen_scalar(rng)
        elif r < 0.7:
            v = gen_patch(rng, D(0), depth - 1, wild) if depth > 0 else gen_scalar(rng)
        elif r < 0.85:
            v = [gen_patch(rng, D(0), depth - 1, wild) if depth > 0 else D(0) for _ in range(rng.randrange(0, 3))]
        elif r < 0.93:
            v = [gen_scalar(rng) for _ in range(rng.randrange(1, 3))]
        else:
            v = "__delete__" if rng.random() < 0.5 else D(0, ("__delete__", True))
        ent.append([k, v])
    if rng.random() < 0.3:
        rng.shuffle(ent)
    seen = set(); ent2 = []
    for k, v in ent:
        if k in seen:
            continue
        seen.add(k); ent2.append([k, v])
    c = 0 if rng.random() < 0.8 else rng.choice([4, 3])
    p = {"c": c, "i": ent2}
    if wild and rng.random() < 0.03:
        p["i"].insert(rng.randrange(len(p["i"]) + 1), ["__delete__", rng.choice([True, True, False, 1, 0, "yes"])])
    return p


def patch_for(rng, v, depth, wild):
    r = rng.random()
    if is_d(v):
        if r < 0.6 and depth > 0:
            return gen_patch(rng, v, depth - 1, wild)
        if r < 0.75:
            return D(0, ("__delete__", True))
        if r < 0.85:
            return "__delete__"
        if r < 0.93:
            return gen_scalar(rng)
        return [D(0, ("z", 1))]
    if is_objlist_spec(v) and (v or rng.random() < 0.5):
        if r < 0.7:
            out = []
            for it in v:
                q = rng.random()
                if q < 0.35:
                    out.append(None)
                elif q < 0.55:
                    out.append(D(0, ("__delete__", True)))
                elif is_d(it) and depth > 0:
                    out.append(gen_patch(rng, it, depth - 1, wild))
                else:
                    out.append(D(0, ("z", gen_scalar(rng))))
            if rng.random() < 0.3 and out:
                out = out[:rng.randrange(len(out) + 1)]
            for _ in range(rng.choice([0, 0, 1, 2])):
                q = rng.random()
                out.append(None if (wild and q < 0.15) else D(0, ("__delete__", True)) if q < 0.25 else D(0, ("n", gen_scalar(rng))))
            return out
        if r < 0.8:
            return "__delete__"
        if r < 0.9:
            return [gen_scalar(rng)]
        return D(0, ("z", 1)) if wild else gen_scalar(rng)
    # scalar or scalar list in d1
    if r < 0.5:
        return gen_scalar(rng)
    if r < 0.7:
        return "__delete__"
    if r < 0.82:
        return [gen_scalar(rng) for _ in range(rng.randrange(0, 3))]
    if wild and r < 0.9:
        return D(0, ("z", 1))
    if wild and r < 0.95:
        return [None, D(0, ("z", 1))]
    if r < 0.97:
        return D(0, ("__delete__", True))
    return gen_scalar(rng)


SNIPPETS = [
    "MAP NAME 'm' LAYER NAME 'road' GROUP 'roads' TYPE LINE STATUS ON CLASS NAME 'c1' STYLE COLOR 1 2 3 END END END LAYER NAME 'roads' TYPE POINT END END",
    "LAYER NAME 'l' TYPE POLYGON CLASS NAME 'a' END CLASS NAME 'b' GROUP 'g' STYLE WIDTH 2 END STYLE WIDTH 3 END END METADATA 'k' 'v' END END",
    "MAP LAYER NAME 'L1' GROUP 'test' END LAYER NAME 'L2' GROUP 'test1' END LAYER NAME 'L3' END LAYER NAME 'L4' GROUP 'test' END END",
    "CLASS NAME 'c' STYLE COLOR 0 0 0 END LABEL SIZE 8 END END",
]
_snip_cache = {}


def snippet_spec(i):
    import mappyfile
    if i not in _snip_cache:
        _snip_cache[i] = to_spec(mappyfile.loads(SNIPPETS[i]))
    return copy.deepcopy(_snip_cache[i])


def gen_update_case(rng):
    wild = rng.random() < 0.35
    r = rng.random()
    if r < 0.12:
        d1 = snippet_spec(rng.randrange(len(SNIPPETS)))
    else:
        pool = CLS_ALL if wild else CLS_MAIN
        if rng.random() < 0.5:
            pool = [rng.choice([0, 4])]
        d1 = gen_dict(rng, 3, pool, 5)
    d2 = gen_patch(rng, d1, 3, wild)
    return {"fn": "update", "d1": d1, "d2": d2, "ow": rng.random() < 0.6}


FIND_VALUES = ["road", "roads", "x", "", 0, 1, 5, False, True, None, "ab", "b", 2.5, 1.0, 0.0, "POINT", "point"]


def gen_find_case(rng, fn):
    wild = rng.random() < 0.25
    key = rng.choice(["name", "group", "a", "layers"])
    n = rng.randrange(0, 6)
    homog = rng.choice([None, None, "str", "int"])
    r = rng.random()
    cls_pool = [0] if r < 0.3 else [4] if r < 0.6 else [3] if r < 0.68 else CLS_ALL
    lst = []
    for _ in range(n):
        c = rng.choice(cls_pool)
        pairs = []
        if rng.random() < 0.3:
            pairs.append(("x", rng.choice([1, "q"])))
        if rng.random() < 0.75:
            if homog == "str":
                v = rng.choice(["road", "roads", "x", "ab", "b", "POINT"])
            elif homog == "int":
                v = rng.choice([0, 1, 5, 7, -2])
            else:
                v = rng.choice(FIND_VALUES)
            if wild and rng.random() < 0.2:
                v = rng.choice([[1], D(0, ("k", 1)), [], D(4)])
            pairs.append((vary(rng, key, 0.3), v))
        if rng.random() < 0.3:
            pairs.append(("y", 2))
        lst.append(D(c, *pairs))
    if wild and lst and rng.random() < 0.2:
        lst[rng.randrange(len(lst))] = rng.choice([None, 3, "s", [1]])
    if rng.random() < 0.12:
        sp = snippet_spec(rng.choice([0, 2]))
        lst = [v for k, v in sp["i"] if k == "layers"][0]
        key = rng.choice(["name", "group", "type"])
    case = {"fn": fn, "lst": lst, "key": vary(rng, key, 0.3)}
    if fn != "findunique":
        r = rng.random()
        if fn == "findall" and r < 0.4:
            case["want"] = [rng.choice(FIND_VALUES) for _ in range(rng.randrange(0, 4))]
        elif wild and r < 0.5:
            case["want"] = rng.choice([D(0), D(0, ("road", 1)), [], D(4, ("NAME", 1))])
        else:
            case["want"] = rng.choice(FIND_VALUES + ["test", "roads", "road"])
    return case


def all_paths(s, prefix=()):
    out = [list(prefix)]
    if is_d(s):
        for k, v in s["i"]:
            out += all_paths(v, prefix + (k,))
    elif isinstance(s, list):
        for i, v in enumerate(s):
            out += all_paths(v, prefix + (i,))
    return out


def gen_findkey_case(rng):
    r = rng.random()
    if r < 0.2:
        d = snippet_spec(rng.randrange(len(SNIPPETS)))
    else:
        d = gen_dict(rng, 3, CLS_ALL if rng.random() < 0.3 else [rng.choice([0, 4])], 4)
    d = to_spec(build(d))
    paths = all_paths(d)
    path = list(rng.choice(paths))
    q = rng.random()
    if q < 0.25:
        path = [vary(rng, p, 0.6) if isinstance(p, str) else p for p in path]
    elif q < 0.45:
        path.append(rng.choice(["zz", "layers", "name", 0, 1, -1, 5]))
    elif q < 0.55 and path:
        i = rng.randrange(len(path))
        path[i] = rng.choice(["zz", 0, -1, 3, "a"])
    elif q < 0.6:
        path = [(-1 if isinstance(p, int) and rng.random() < 0.5 else p) for p in path]
    return {"fn": "findkey", "d": d, "path": path}


def exhaustive_update(rng, full):
    """every (d1 slot, patch slot) pair over one key; sampled product over two case-variant keys"""
    slot1 = ["<absent>", 1, "__delete__", D(0, ("x", 1)), D(4, ("x", 1)), [D(0, ("x", 1)), D(0, ("y", 2))], [1, 2], [], None, "abc"]
    slot2 = ["<absent>", 2, "__delete__", None, D(0, ("x", 2)), D(0, ("w", 3)), D(0, ("__delete__", True)), D(0, ("y", D(0, ("__delete__", True)))),
             D(0, ("x", "__delete__")), [None, D(0, ("x", 3))], [D(0, ("__delete__", True))], [None, None, D(0, ("n", 1))], [], [7], D(0), [D(0, ("__delete__", True)), D(0, ("x", 9))]]
    cases = []
    for c1 in (0, 4):
        for ow in (True, False):
            for s1 in slot1:
                for s2 in slot2:
                    d1 = D(c1, ("k0", 5), *([] if s1 == "<absent>" else [("a", copy.deepcopy(s1))]), ("k9", 6))
                    d2 = D(0, *([] if s2 == "<absent>" else [("a", copy.deepcopy(s2))]))
                    cases.append({"fn": "update", "d1": d1, "d2": d2, "ow": ow})
    p = 1.0 if full else 0.08
    for c1 in (0, 4):
        for ow in (True, False):
            for s1a, s1b in itertools.product(slot1[:7], repeat=2):
                for s2a, s2b in itertools.product(slot2[:12], repeat=2):
                    if rng.random() > p:
                        continue
                    d1 = D(c1, *([] if s1a == "<absent>" else [("a", copy.deepcopy(s1a))]), *([] if s1b == "<absent>" else [("A", copy.deepcopy(s1b))]))
                    d2 = D(0, *([] if s2a == "<absent>" else [("A", copy.deepcopy(s2a))]), *([] if s2b == "<absent>" else [("a", copy.deepcopy(s2b))]))
                    cases.append({"fn": "update", "d1": d1, "d2": d2, "ow": ow})
    return cases


def exhaustive_find():
    """every list of <= 2 items over a slot alphabet x asked values, for find and findall"""
    slots = ["<absent>", "road", "roads", "", 0, 1, False, None, [1]]
    asks = ["road", "roads", 1, 0, "", ["road", 0], [], None, False]
    cases = []
    for c in (0, 3, 4):
        items = [D(c, ("x", 1), *([] if s == "<absent>" else [("name", s)])) for s in slots]
        lists = [[]] + [[a] for a in items] + [[a, b] for a in items for b in items]
        for lst in lists:
            for w in asks:
                for fn in ("find", "findall"):
                    cases.append({"fn": fn, "lst": copy.deepcopy(lst), "key": "NAME", "want": copy.deepcopy(w)})
            cases.append({"fn": "findunique", "lst": copy.deepcopy(lst), "key": "Name"})
    return cases


def nontrivial(case, im):
    fn = case["fn"]
    if fn == "update":
        return len(case["d2"]["i"]) >= 1 and im["out"][0] == "ok"
    if fn == "findkey":
        return len(case["path"]) >= 1
    return len(case["lst"]) >= 2


# ------------------------------------------------------------------ run
def load_corpus(ctx):
    cases = []
    p = os.path.join(ROOT, "corpus", "C18.json")
    if os.path.exists(p):
        cases += json.load(open(p))
    for f in ctx.findings:
        if isinstance(f.get("input"), dict) and "fn" in f["input"]:
            cases.append(f["input"])
    return cases


def run(ctx):
    rng = ctx.rng
    cases = load_corpus(ctx)
    n_corpus = len(cases)
    ex_u = exhaustive_update(rng, ctx.budget(False, True))
    ex_f = exhaustive_find()
    if ctx.quick():
        ex_f = [c for i, c in enumerate(ex_f) if i % 3 == 0 or len(c["lst"]) < 2]
    cases += ex_u + ex_f
    n_u = ctx.budget(2500, 40000)
    n_f = ctx.budget(1200, 15000)
    n_k = ctx.budget(800, 8000)
    for _ in range(n_u):
        cases.append(gen_update_case(rng))
    for _ in range(n_f):
        cases.append(gen_find_case(rng, "find"))
        cases.append(gen_find_case(rng, "findall"))
    for _ in range(n_f // 2):
        cases.append(gen_find_case(rng, "findunique"))
    for _ in range(n_k):
        cases.append(gen_findkey_case(rng))
    ctx.count("corpus_cases", n_corpus)
    ctx.count("exhaustive_update_cases", len(ex_u))
    ctx.count("exhaustive_find_cases", len(ex_f))
    ctx.count("random_cases", n_u + 2 * n_f + n_f // 2 + n_k)

    # ---- correspondence
    outs = None
    if ctx.model_ok:
        outs = run_model("dictutils", [(FN[c["fn"]], enc_case(c)) for c in cases])
    n_bad = 0
    per_fn = {}
    outcome_hist = {}
    in_domain = {}
    first_bad = None
    for n, case in enumerate(cases):
        fn = case["fn"]
        im = run_impl(case)
        per_fn[fn] = per_fn.get(fn, 0) + 1
        okind = "%s:%s" % (fn, "ok" if im["out"][0] == "ok" else "exc%s" % im["out"][1])
        outcome_hist[okind] = outcome_hist.get(okind, 0) + 1
        ctx.note_case(repr(case), nontrivial=nontrivial(case, im))
        diff = None
        if outs is not None:
            mo = dec_model(case, outs[n])
            diff = corr_diff(case, im, mo)
        # ---- hunter on the same case
        try:
            hv = hunt(case)
        except Exception as ex:  # a crash of the oracle is a defect of the check, make it visible
            hv = [("hunter-crash:%s" % type(ex).__name__, "hunter crashed on %r: %r" % (case, ex))]
        if hv is None:
            in_domain[fn + ":unspecified"] = in_domain.get(fn + ":unspecified", 0) + 1
            hv = []
        else:
            in_domain[fn + ":specified"] = in_domain.get(fn + ":specified", 0) + 1
        for fp, what in hv:
            if ctx.match_known(fp) is not None:
                ctx.violation(fp, what, case)
                continue
            if any(v[0] == fp for v in ctx.violations):
                continue
            small = shrink_case(case, fp)
            hv2 = hunt(small) or []
            what2 = next((w for f, w in hv2 if f == fp), what)
            ctx.violation(fp, what2, small)
        if diff is not None:
            n_bad += 1
            if first_bad is None:
                first_bad = (case, diff)
            if not hv:
                ctx.violation("correspondence:O-du:%s" % fn,
                              "model and implementation disagree (%s) while the implementation satisfies the reference here" % diff[:400],
                              {"case": case, "diff": diff}, no_input=True)
    if outs is not None:
        ctx.obligation("correspondence O-du (model = implementation: result, exception class, arguments after the call)", n_bad == 0,
                       "%d cases, %d disagreements%s" % (len(cases), n_bad, "" if first_bad is None else "; first: %r: %s" % (first_bad[0], first_bad[1][:300])))
        ctx.count("traces_validated_against_impl", len(cases))
    else:
        ctx.obligation("correspondence O-du", False, "extracted model unavailable")
    ctx.coverage["cases_per_function"] = per_fn
    ctx.coverage["implementation_outcomes"] = dict(sorted(outcome_hist.items()))
    ctx.coverage["hunter_domain"] = dict(sorted(in_domain.items()))
    ctx.sample({"update_case": repr(next(c for c in reversed(cases) if c["fn"] == "update"))[:600]})
    ctx.sample({"findall_case": repr(next(c for c in reversed(cases) if c["fn"] == "findall"))[:400]})
    ctx.sample({"findkey_case": repr(cases[-1])[:400]})


def replay(ctx, body):
    case = body["replay"]
    if "case" in case:
        case = case["case"]
    hv = hunt(case)
    print("replay: hunter on the recorded input:", hv if hv else "no deviation from the reference")
    im = run_impl(case)
    print("implementation:", im["out"])
    return 1 if hv else 0
