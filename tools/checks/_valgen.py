"""Independent Python oracles and generators for the validator checks (C07, C09).

Nothing here uses the Coq model or mappyfile's validator: the Draft-4
evaluator is transcribed from coq/Spec/Draft4.v (itself written from the
Draft-4 text), the version oracle reads minVersion/maxVersion straight from the
raw schema files."""
import re, copy
from collections import OrderedDict

# ------------------------------------------------------------------ Draft-4 evaluator


def _is_type(t, x):
    if t == "array":
        return isinstance(x, list)
    if t == "boolean":
        return isinstance(x, bool)
    if t == "integer":
        return isinstance(x, int) and not isinstance(x, bool)
    if t == "null":
        return x is None
    if t == "number":
        return isinstance(x, (int, float)) and not isinstance(x, bool)
    if t == "object":
        return isinstance(x, dict)
    if t == "string":
        return isinstance(x, str)
    raise ValueError("unknown type %r" % t)


def _is_num(x):
    return isinstance(x, (int, float)) and not isinstance(x, bool)


def _jeq(a, b):
    if isinstance(a, bool) or isinstance(b, bool):
        return isinstance(a, bool) and isinstance(b, bool) and a == b
    if isinstance(a, str) or isinstance(b, str):
        return isinstance(a, str) and isinstance(b, str) and a == b
    if _is_num(a) and _is_num(b):
        return a == b
    if a is None or b is None:
        return a is None and b is None
    return a == b


class Spec:
    """conforms(schema, instance) over raw schema files with $ref resolved by file name."""

    def __init__(self, raw):
        self.raw = raw

    def resolve(self, s):
        n = 0
        while isinstance(s, dict) and isinstance(s.get("$ref"), str):
            s = self.raw[s["$ref"]]
            n += 1
            if n > 100:
                raise ValueError("reference cycle")
        return s

    def conforms(self, s, x):
        s = self.resolve(s)
        for k, v in s.items():
            if not self.kw(k, v, s, x):
                return False
        return True

    def kw(self, k, v, s, x):
        if k == "type":
            ts = [v] if isinstance(v, str) else v
            return any(_is_type(t, x) for t in ts)
        if k == "enum":
            return any(_jeq(m, x) for m in v)
        if k == "minimum":
            if not _is_num(x):
                return True
            return x > v if s.get("exclusiveMinimum") is True else x >= v
        if k == "maximum":
            if not _is_num(x):
                return True
            return x < v if s.get("exclusiveMaximum") is True else x <= v
        if k == "minItems":
            return not isinstance(x, list) or len(x) >= v
        if k == "maxItems":
            return not isinstance(x, list) or len(x) <= v
        if k == "minLength":
            return not isinstance(x, str) or len(x) >= v
        if k == "maxLength":
            return not isinstance(x, str) or len(x) <= v
        if k == "pattern":
            return not isinstance(x, str) or re.search(v, x) is not None
        if k == "required":
            return not isinstance(x, dict) or all(r in x for r in v)
        if k == "properties":
            if not isinstance(x, dict):
                return True
            return all(self.conforms(sub, x[p]) for p, sub in v.items() if p in x)
        if k == "patternProperties":
            if not isinstance(x, dict):
                return True
            return all(self.conforms(sub, xv) for pat, sub in v.items() for xk, xv in x.items() if re.search(pat, xk))
        if k == "additionalProperties":
            if not isinstance(x, dict):
                return True
            props = s.get("properties", {})
            pats = list(s.get("patternProperties", {}))
            extra = [xk for xk in x if xk not in props and not any(re.search(p, xk) for p in pats)]
            if isinstance(v, dict):
                return all(self.conforms(v, x[xk]) for xk in extra)
            return v is not False or not extra
        if k == "items":
            if not isinstance(x, list):
                return True
            if isinstance(v, dict):
                return all(self.conforms(v, e) for e in x)
            return all(self.conforms(sub, e) for sub, e in zip(v, x))
        if k == "allOf":
            return all(self.conforms(sub, x) for sub in v)
        if k == "anyOf":
            return any(self.conforms(sub, x) for sub in v)
        if k == "oneOf":
            return sum(1 for sub in v if self.conforms(sub, x)) == 1
        if k == "not":
            return not self.conforms(v, x)
        return True      # annotations: default, metadata, description, example, $schema, exclusiveMinimum ...


def lower_json(x):
    """the lower-cased JSON form of a Mapfile dictionary (keys and string values)."""
    if isinstance(x, dict):
        out = OrderedDict()
        for k, v in x.items():
            out[k.lower()] = lower_json(v)
        return out
    if isinstance(x, (list, tuple)):
        return [lower_json(v) for v in x]
    if isinstance(x, str):
        return x.lower()
    return x


# ------------------------------------------------------------------ version oracle
def annotation(node):
    """(min, max) of a schema node annotated with metadata.minVersion/maxVersion, else None."""
    if isinstance(node, dict):
        md = node.get("metadata")
        if isinstance(md, dict) and ("minVersion" in md or "maxVersion" in md):
            return (md.get("minVersion", 0.0), md.get("maxVersion", 1000.0))
    return None


def in_range(node, version):
    a = annotation(node)
    return a is None or (a[0] <= version <= a[1])


def spec_prune(raw, node, version, _depth=0):
    """The schema one gets by inlining every $ref and dropping, everywhere, each
    annotated keyword / object / alternative whose range excludes `version`."""
    if _depth > 60:
        raise ValueError("reference cycle")
    if isinstance(node, dict):
        if isinstance(node.get("$ref"), str):
            return spec_prune(raw, raw[node["$ref"]], version, _depth + 1)
        out = OrderedDict()
        for k, v in node.items():
            if isinstance(v, dict):
                tgt = raw[v["$ref"]] if isinstance(v.get("$ref"), str) else v
                if version is not None and not in_range(tgt, version):
                    continue
            out[k] = spec_prune(raw, v, version, _depth + 1)
        return out
    if isinstance(node, list):
        out = []
        for v in node:
            if isinstance(v, dict):
                tgt = raw[v["$ref"]] if isinstance(v.get("$ref"), str) else v
                if version is not None and not in_range(tgt, version):
                    continue
            out.append(spec_prune(raw, v, version, _depth + 1))
        return out
    return node


def all_bounds(raw):
    bs = set()

    def walk(n):
        if isinstance(n, dict):
            a = annotation(n)
            if a:
                md = n["metadata"]
                for k in ("minVersion", "maxVersion"):
                    if k in md:
                        bs.add(md[k])
            for v in n.values():
                walk(v)
        elif isinstance(n, list):
            for v in n:
                walk(v)
    for j in raw.values():
        walk(j)
    return sorted(bs)


def annotated_entries(raw):
    """[(file, path tuple inside the file, node)] for every annotated node."""
    out = []

    def walk(n, fn, path):
        if isinstance(n, dict):
            if annotation(n):
                out.append((fn, path, n))
            for k, v in n.items():
                walk(v, fn, path + (k,))
        elif isinstance(n, list):
            for i, v in enumerate(n):
                walk(v, fn, path + (i,))
    for fn, j in raw.items():
        walk(j, fn, ())
    return out


# ------------------------------------------------------------------ block contexts
def is_block(schema):
    """an object schema that appears as a block in Mapfile text (has a __type__)."""
    return isinstance(schema, dict) and schema.get("type") == "object" and "__type__" in schema.get("properties", {})


def block_contexts(raw, root="map.json", limit=8):
    """{file: [context]} where a context is a list of steps (key, is_list) from the
    root object down to an object of that file, found by walking properties ->
    ($ref | items.$ref | allOf/oneOf/anyOf members.$ref)."""
    ctxs = {root: [[]]}
    seen = set()

    def targets(sub):
        """files an object-valued keyword schema can hold: (file, is_list)."""
        res = []
        if not isinstance(sub, dict):
            return res
        if isinstance(sub.get("$ref"), str):
            res.append((sub["$ref"], False))
        it = sub.get("items")
        if isinstance(it, dict) and isinstance(it.get("$ref"), str):
            res.append((it["$ref"], True))
        for comb in ("allOf", "oneOf", "anyOf"):
            for m in sub.get(comb, []):
                if isinstance(m, dict) and isinstance(m.get("$ref"), str):
                    res.append((m["$ref"], False))
        return res

    def walk(fn, ctx):
        if len(ctx) > limit:
            return
        for key, sub in raw[fn].get("properties", {}).items():
            for tf, is_list in targets(sub):
                tgt = raw[tf]
                if isinstance(tgt, dict) and tgt.get("type") == "object":
                    c = ctx + [(key, is_list, tf)]
                    sig = tuple((k, l) for k, l, _ in c)
                    if (tf, sig) in seen:
                        continue
                    seen.add((tf, sig))
                    ctxs.setdefault(tf, []).append(c)
                    walk(tf, c)
    walk(root, [])
    return ctxs


def type_name(raw, fn):
    en = raw[fn].get("properties", {}).get("__type__", {}).get("enum")
    return en[0] if en else None


def new_obj(raw, fn, ci=True):
    from mappyfile.ordereddict import CaseInsensitiveOrderedDict as CI
    d = CI(CI) if ci else OrderedDict()
    t = type_name(raw, fn)
    if t:
        d["__type__"] = t
    for r in raw[fn].get("required", []):
        sub = raw[fn]["properties"][r]
        d[r] = sub["enum"][0] if "enum" in sub else "x"
    return d


def build_in_context(raw, ctx, leaf_fn, fill, root="map.json"):
    """minimal root dictionary with an object of `leaf_fn` at `ctx`; fill(obj) adds the payload.
    Returns (doc, annotated nodes used on the way: the keyword schemas of the steps and annotated target files)."""
    used = []
    doc = new_obj(raw, root)
    cur, cur_fn = doc, root
    for key, is_list, tf in ctx:
        used.append(raw[cur_fn]["properties"][key])
        used.append(raw[tf])
        child = new_obj(raw, tf)
        cur[key] = [child] if is_list else child
        cur, cur_fn = child, tf
    fill(cur)
    return doc, used


# ------------------------------------------------------------------ value generator
PATTERN_SAMPLES = {
    r"^\[(.*?)\]$": ["[attr]", "[A_b1]", "[x y]"],
    r"^\((.*?)\)$": ["([a] > 1)", "(1 + 2)", "()"],
    r"^/(.*?)/$": ["/re/", "/a b/", "//"],
    r"^rectangle$": ["rectangle"],
    r"^ellipse$": ["ellipse"],
    r"^&#[0-9]+;$": ["&#65;", "&#1234;"],
    r"^#([a-fA-F0-9]{6,8}|[a-fA-F0-9]{3,4})$": ["#aabbcc", "#ABC", "#a1b2c3d4", "#abcd"],
    "^'#([a-fA-F0-9]{6}|[a-fA-F0-9]{3})'$": ["'#aabbcc'", "'#ABC'"],
    '^"#([a-fA-F0-9]{6}|[a-fA-F0-9]{3})"$': ['"#aabbcc"', '"#abc"'],
}
WORDS = ["roads", "My Layer", "data/file.shp", "x", "Straße", "name_1", "ÉTÉ", "a b c", "init=epsg:4326", "50%", ""]


class GenFail(Exception):
    pass


class Gen:
    """random schema-conforming values, checked by the Spec evaluator."""

    def __init__(self, raw, rng):
        self.raw, self.rng, self.spec = raw, rng, Spec(raw)

    def res(self, s):
        return self.spec.resolve(s)

    def value(self, s, depth=0, version=None):
        for _ in range(12):
            try:
                v = self._value(s, depth, version)
            except GenFail:
                continue
            if self.spec.conforms(s, lower_json(v)):
                return v
        raise GenFail(str(s)[:80])

    def _number(self, s, integer):
        lo = s.get("minimum", -1000 if "maximum" not in s else s["maximum"] - 50)
        hi = s.get("maximum", lo + 1000)
        if s.get("exclusiveMinimum") is True:
            lo += 1
        r = self.rng.random()
        if integer:
            return lo if r < 0.2 else hi if r < 0.4 else self.rng.randint(int(lo), int(hi))
        if r < 0.15:
            return lo
        if r < 0.3:
            return hi
        if r < 0.6:
            return self.rng.randint(int(lo), int(hi))
        return round(self.rng.uniform(lo, hi), self.rng.choice([1, 2, 3]))

    def _string(self, s):
        if "pattern" in s:
            if s["pattern"] not in PATTERN_SAMPLES:
                raise GenFail("pattern " + s["pattern"])
            return self.rng.choice(PATTERN_SAMPLES[s["pattern"]])
        w = self.rng.choice(WORDS)
        lo, hi = s.get("minLength", 0), s.get("maxLength", 99)
        if not (lo <= len(w) <= hi):
            w = "x" * lo
        return w

    def _value(self, s, depth, version):
        s = self.res(s)
        rng = self.rng
        if version is not None:
            alive = lambda m: in_range(self.res(m), version)       # noqa
        else:
            alive = lambda m: True                                  # noqa
        if "enum" in s:
            v = rng.choice(s["enum"])
            if isinstance(v, str) and rng.random() < 0.6:
                v = v.upper()
            return v
        for comb in ("oneOf", "anyOf"):
            if comb in s:
                alts = [m for m in s[comb] if alive(m)]
                if not alts:
                    raise GenFail("no alternative")
                for _ in range(8):
                    v = self._value(rng.choice(alts), depth, version)
                    if version is not None or self.spec.conforms(s, lower_json(v)):
                        return v
                raise GenFail("ambiguous alternatives")
        if "allOf" in s:
            alts = [m for m in s["allOf"] if alive(m)]
            if not alts:
                return rng.choice(["x", 1])
            for _ in range(8):
                v = self._value(alts[0], depth, version)
                if version is not None or self.spec.conforms(s, lower_json(v)):
                    return v
            raise GenFail("allOf")
        t = s.get("type")
        if t == "string":
            return self._string(s)
        if t == "integer":
            return self._number(s, True)
        if t == "number":
            return self._number(s, False)
        if t == "boolean":
            return rng.random() < 0.5
        if t == "array":
            it = s.get("items", {})
            lo = s.get("minItems", 0)
            hi = s.get("maxItems", lo + 2)
            n = rng.randint(lo, hi)
            if isinstance(it, list):
                return [self._value(it[i] if i < len(it) else {"type": "number"}, depth + 1, version) for i in range(n)]
            if is_block(self.res(it)):
                n = min(n, lo) if depth > 7 else min(rng.randint(max(lo, 1), 3 if depth < 4 else 2), s.get("maxItems", 9))
            return [self._value(it, depth + 1, version) for _ in range(n)]
        if t == "object":
            return self._object(s, depth, version)
        raise GenFail("untyped schema %s" % list(s))

    def _object(self, s, depth, version):
        from mappyfile.ordereddict import CaseInsensitiveOrderedDict as CI
        rng = self.rng
        d = CI(CI)
        props = s.get("properties", {})
        if "__type__" in props:
            d["__type__"] = props["__type__"]["enum"][0]
        if not props and s.get("additionalProperties", True) is not False:
            for i in range(rng.randint(0, 3)):
                d[rng.choice(["wms_title", "ows_enable_request", "k%d" % i, "Mixed_Key"])] = rng.choice(WORDS)
            return d
        req = s.get("required", [])
        keys = [k for k in props if k != "__type__"]
        p = 0.5 if depth == 0 else 0.3 if depth < 5 else 0.15
        for k in keys:
            sub = props[k]
            rs0 = self.res(sub)
            heavy0 = is_block(rs0) or is_block(self.res(rs0.get("items", {})) if isinstance(rs0.get("items"), dict) else {}) \
                or any(is_block(self.res(m)) for comb in ("allOf", "oneOf", "anyOf") for m in rs0.get(comb, []) if isinstance(m, dict))
            if k not in req and not heavy0 and rng.random() > p:
                continue
            if version is not None and not in_range(self.res(sub), version):
                continue
            rs = self.res(sub)
            heavy = is_block(rs) or is_block(self.res(rs.get("items", {})) if isinstance(rs.get("items"), dict) else {}) \
                or any(is_block(self.res(m)) for comb in ("allOf", "oneOf", "anyOf") for m in rs.get(comb, []) if isinstance(m, dict))
            if heavy:
                if depth >= 8 or (k not in req and rng.random() > (0.75 if depth < 3 else 0.5 if depth < 6 else 0.3)):
                    continue
            try:
                d[k] = self._value(sub, depth + 1, version)
            except GenFail:
                if k in req:
                    raise
        return d

    def document(self, root="map.json", version=None):
        return self.value(self.raw[root], 0, version)

    def minimal(self, s):
        """a small conforming value built only from unannotated alternatives (falls back to a random one)."""
        try:
            v = self._minimal(s, 0)
            if self.spec.conforms(s, lower_json(v)):
                return v
        except GenFail:
            pass
        return self.value(s, 3)

    def _minimal(self, s, depth):
        s = self.res(s)
        if depth > 8:
            raise GenFail("deep")
        if "enum" in s:
            return s["enum"][0]
        for comb in ("oneOf", "anyOf", "allOf"):
            if comb in s:
                alts = [m for m in s[comb] if annotation(self.res(m)) is None] or list(s[comb])
                for m in alts:
                    try:
                        v = self._minimal(m, depth + 1)
                    except GenFail:
                        continue
                    if self.spec.conforms(s, lower_json(v)):
                        return v
                raise GenFail("no alternative")
        t = s.get("type")
        if t == "string":
            if "pattern" in s:
                return PATTERN_SAMPLES[s["pattern"]][0]
            return "x" * max(1, s.get("minLength", 1))
        if t in ("integer", "number"):
            lo = s.get("minimum", 1)
            return max(lo, 1) if s.get("maximum", 10 ** 9) >= max(lo, 1) else lo
        if t == "boolean":
            return True
        if t == "array":
            it = s.get("items", {"type": "string"})
            n = max(s.get("minItems", 1), 1)
            if isinstance(it, list):
                return [self._minimal(it[i] if i < len(it) else it[-1], depth + 1) for i in range(n)]
            return [self._minimal(it, depth + 1) for _ in range(n)]
        if t == "object":
            from mappyfile.ordereddict import CaseInsensitiveOrderedDict as CI
            d = CI(CI)
            props = s.get("properties", {})
            if "__type__" in props:
                d["__type__"] = props["__type__"]["enum"][0]
            for r in s.get("required", []):
                d[r] = self._minimal(props[r], depth + 1)
            return d
        raise GenFail("untyped")


# ------------------------------------------------------------------ fault injection
def object_sites(raw, doc, root="map.json"):
    """[(path, object dict, schema file)] of every block object in the document."""
    out = []

    def walk(d, fn, path):
        out.append((path, d, fn))
        props = raw[fn].get("properties", {})
        for k, v in list(d.items()):
            sub = props.get(k)
            if sub is None:
                continue
            tf = None
            if isinstance(sub.get("$ref"), str):
                tf = sub["$ref"]
            elif isinstance(sub.get("items"), dict) and isinstance(sub["items"].get("$ref"), str):
                tf = sub["items"]["$ref"]
            else:
                # objects below oneOf/anyOf (CLASS/STYLE SYMBOL as an inline object) are not fault sites:
                # the parser stores inline symbols under "symbols", and jsonschema folds their errors
                # into one oneOf error on the enclosing keyword
                for comb in ("allOf",):
                    for m in sub.get(comb, []):
                        if isinstance(m, dict) and isinstance(m.get("$ref"), str) and is_block(raw[m["$ref"]]):
                            tf = m["$ref"]
            if tf is None or not is_block(raw[tf]):
                continue
            if isinstance(v, dict):
                walk(v, tf, path + [k])
            elif isinstance(v, list):
                for i, e in enumerate(v):
                    if isinstance(e, dict):
                        walk(e, tf, path + [k, i])
    walk(doc, root, [])
    return out


FAULT_KINDS = ["enum", "range", "arity", "type", "unknown", "required"]


def _find_kw(gen, props, pred):
    ks = [k for k, sub in props.items() if k != "__type__" and pred(gen.res(sub))]
    return ks


def inject(gen, raw, doc, kind, rng, root="map.json"):
    """Mutate `doc` in place with one fault of `kind` at a random object site.
    Returns a description dict {kind, path (object path), key, names} or None when no site fits.
    `names` is what a message must name: the keyword, or the object's type for object-level faults;
    `in_list` tells that the faulty value sits inside a list-valued keyword."""
    sites = object_sites(raw, doc, root)
    rng.shuffle(sites)
    for path, obj, fn in sites:
        props = raw[fn].get("properties", {})
        if kind == "unknown":
            obj["nosuchkeyword"] = 1
            return dict(kind=kind, path=path, key=None, names=obj.get("__type__"), object_level=True, in_list=False)
        if kind == "required":
            req = raw[fn].get("required", [])
            if not req or req[0] not in obj:
                continue
            del obj[req[0]]
            return dict(kind=kind, path=path, key=None, names=obj.get("__type__"), object_level=True, in_list=False)
        if kind == "enum":
            ks = _find_kw(gen, props, lambda s: "enum" in s and all(isinstance(m, str) for m in s["enum"]))
            if not ks:
                continue
            k = rng.choice(ks)
            obj[k] = "NOT_A_MEMBER"
            return dict(kind=kind, path=path, key=k, names=k, object_level=False, in_list=False)
        if kind == "range":
            ks = _find_kw(gen, props, lambda s: s.get("type") in ("number", "integer") and ("minimum" in s or "maximum" in s))
            ks2 = _find_kw(gen, props, lambda s: s.get("type") == "array" and isinstance(s.get("items"), dict)
                           and ("minimum" in gen.res(s["items"]) or "maximum" in gen.res(s["items"])))
            if ks and (not ks2 or rng.random() < 0.6):
                k = rng.choice(ks)
                s = gen.res(props[k])
                obj[k] = (s["minimum"] - 7) if "minimum" in s else (s["maximum"] + 7)
                return dict(kind=kind, path=path, key=k, names=k, object_level=False, in_list=False)
            if ks2:
                k = rng.choice(ks2)
                s = gen.res(props[k])
                it = gen.res(s["items"])
                n = max(s.get("minItems", 1), 1)
                good = it.get("minimum", it.get("maximum", 0))
                bad = (it["minimum"] - 7) if "minimum" in it else (it["maximum"] + 7)
                vals = [good] * n
                vals[rng.randrange(n)] = bad
                obj[k] = vals
                return dict(kind=kind, path=path, key=k, names=k, object_level=False, in_list=True)
            continue
        if kind == "arity":
            ks = _find_kw(gen, props, lambda s: s.get("type") == "array" and "minItems" in s and s.get("minItems") == s.get("maxItems")
                          and isinstance(s.get("items"), dict) and gen.res(s["items"]).get("type") in ("number", "integer"))
            if not ks:
                continue
            k = rng.choice(ks)
            s = gen.res(props[k])
            n = s["minItems"] + rng.choice([-1, 1])
            it = gen.res(s["items"])
            obj[k] = [it.get("minimum", 1)] * max(n, 0)
            return dict(kind=kind, path=path, key=k, names=k, object_level=False, in_list=False)
        if kind == "type":
            ks = _find_kw(gen, props, lambda s: s.get("type") in ("number", "integer", "boolean") and "enum" not in s)
            ks2 = _find_kw(gen, props, lambda s: s.get("type") == "array" and isinstance(s.get("items"), dict)
                           and gen.res(s["items"]).get("type") in ("number", "integer"))
            if ks and (not ks2 or rng.random() < 0.6):
                k = rng.choice(ks)
                obj[k] = "not a number"
                return dict(kind=kind, path=path, key=k, names=k, object_level=False, in_list=False)
            if ks2:
                k = rng.choice(ks2)
                s = gen.res(props[k])
                n = max(s.get("minItems", 1), 1)
                it = gen.res(s["items"])
                vals = [it.get("minimum", 1)] * n
                vals[rng.randrange(n)] = "oops"
                obj[k] = vals
                return dict(kind=kind, path=path, key=k, names=k, object_level=False, in_list=True)
            continue
    return None


def swap_case(d, rng):
    """same dictionary with keys and string values in another letter case (hidden values kept)."""
    from mappyfile.ordereddict import CaseInsensitiveOrderedDict as CI
    if isinstance(d, dict):
        out = CI(CI)
        for k, v in d.items():
            k2 = k if k.startswith("__") else (k.upper() if rng.random() < 0.5 else k.capitalize())
            out[k2] = v if k.startswith("__") else swap_case(v, rng)
        return out
    if isinstance(d, list):
        return [swap_case(v, rng) for v in d]
    if isinstance(d, tuple):
        return tuple(swap_case(v, rng) for v in d)
    if isinstance(d, str):
        c = d.swapcase() if rng.random() < 0.7 else d.upper()
        return c if c.lower() == d.lower() else d
    return d
