"""C16: pretty-printer layout contract.

Correspondence O-lines (extracted Coq model of pprint.py vs PrettyPrinter.pprint:
exact text or exception class, and the argument after the call), O-str, O-strip;
hunter: an independent line-based checker (tools/hunt/layout.py) of the layout
contract on real mappyfile.dumps output for corpus files and schema-generated
documents under option sets of the C06 product."""
import os, json, copy, collections
from checklib import codec
from corr import printer as P
from hunt import layout

MANIFEST = dict(
    technique="Coq proof by induction over values (block grammar of the printed lines) + extracted-model correspondence + independent line-based hunter",
    text=("Coq theorems (Props/C16.v) about the function-by-function model of pprint.py/quoter.py (Model/PPrint.v, Model/Quoter.v), universal over every value and option set: "
          "the lines of pprint are a sequence of root blocks of the block grammar of Spec/Layout.v (opener at depth x indent copies of spacer, body one level deeper, END at the opener's indentation, "
          "END followed by '# ' and the opener's word when end_comment is set; keyword/value lines at their depth start with a non-blank and are neither END-like nor a bare block word), "
          "hence every line is at (its nesting depth x indent) copies of spacer; every line break of the text is newlinechar when no printed string contains one; "
          "compute_aligned_max_indent is the first multiple of max(1,indent) strictly past L and with align_values every simple keyword line of an object puts its value at that column. "
          "Refuted with witnesses: a root METADATA/VALIDATION/CONNECTIONOPTIONS block is printed one level deep; in key-value blocks a key named like an ignored block word is left out of the column computation. "
          "The model is tied to pprint.py on every run: exact text / exception class / dict-after-call for corpus files (comments and positions on and off), schema-generated dictionaries "
          "and malformed values under random option sets of the C06 product."),
    design_ref="DESIGN.md 7/C16",
    note=("C16: guards of the universal theorems (Spec/Layout.v layout_doc): documents without __comments__ (comment lines are outside the contract; their placement is only exercised by O-lines and the hunter), "
          "keywords whose upper-case form starts with a non-blank, is not a prefix of / prefixed by END and keeps its length (ASCII keywords), numeric POINTS/PATTERN coordinates. "
          "int(L / indent) is a float division in Python; the model uses integer division, exact for L < 2^53 (stated, not proved). "
          "str()/repr() of non-ASCII unprintable code points is approximated (Model/Quoter.v)."))

COMPONENTS = ["printer"]
TARGETS = []
RULE = ("documents = regression corpus (corpus/C16.json) + shipped .map files parsed with comments/positions off and on (sample in quick, all in thorough) + schema-generated dictionaries "
        "(every object type, keys by schema shape, nested children, comments, odd values) + designed malformed values; each under the default and random option sets of the "
        "9x2x2x3x2x2x2 product; non-trivial = printed text has at least 3 lines; distinct by sha1 of (options, document)")
EXPLANATION = "see MANIFEST text"

ROOT = os.path.dirname(os.path.dirname(os.path.dirname(os.path.abspath(__file__))))


def designed_docs():
    from mappyfile.ordereddict import CaseInsensitiveOrderedDict as CI, DefaultOrderedDict as DD
    md = CI(CI, [("__type__", "metadata"), ("wms_title", "x"), ("a b", "c")])
    docs = [
        ("root-metadata", md),
        ("kv-ignored-key", CI(CI, [("__type__", "map"), ("name", "x"),
                                   ("metadata", CI(CI, [("__type__", "metadata"), ("projection", "x"), ("a", "b")]))])),
        ("nested-no-type", {"__type__": "map", "layers": [{"name": "x"}]}),
        ("no-schema-type", {"__type__": "align", "x": 1}),
        ("two-roots", [CI(CI, [("__type__", "layer"), ("name", "a")]), CI(CI, [("__type__", "layer"), ("name", "b"), ("classes", [])])]),
        ("plain-dict-separate", {"__type__": "layer", "metadata": {"a": "b"}, "name": "x"}),
        ("dd-create", DD(None, [("__type__", "layer"), ("name", "x"), ("status", "on")])),
    ]
    for v in [None, 0, "", {}, [], 5, "abc", [None], [[1]], [CI(CI)], [{}], [DD()], True, 0.0, 1.5, {"a": 1},
              {"__type__": "nosuch"}, {"__type__": 5}, {"__type__": []},
              {"__type__": "map", "__comments__": ["__type__"]}, {"__type__": "map", "__comments__": "x__type__x"},
              {"__type__": "map", "__comments__": 5}, {"__type__": "metadata", "a": "b", "__x__": 1},
              {"__type__": "layer", "points": []}, {"__type__": "layer", "points": [[]]}, {"__type__": "layer", "points": "ab"},
              {"__type__": "layer", "pattern": ["ab", [1, 2, 3]]}, {"__type__": "layer", "pattern": [[1]]},
              {"__type__": "layer", "projection": 5}, {"__type__": "layer", "projection": [5]}, {"__type__": "layer", "projection": {"a": 1}},
              {"__type__": "layer", "projection": {"a": 1, "b": 2}}, {"__type__": "layer", "config": [1]}, {"__type__": "layer", "metadata": [1]},
              {"__type__": "layer", "processing": "ab"}, {"__type__": "layer", "processing": 5}, {"__type__": "layer", "layers": [5]},
              {"__type__": "layer", "layers": "x"}, {"__type__": "layer", "name": "x", "__comments__": {"name": [1]}},
              {"__type__": "layer", "name": "x", "__comments__": {"name": 1}}, {"__type__": "layer", "group": {}}, {"__type__": "layer", "status": {}},
              {"__type__": "layer", "group": CI(None, [("a", [1, 2.5])])}, {"__type__": "style", "symbol": "x", "styles": []}]:
        docs.append(("odd", v))
    return docs


def gen_cases(ctx):
    rng = ctx.rng
    cases = []      # (name, opts, doc)
    cpath = os.path.join(ROOT, "corpus", "C16.json")
    if os.path.exists(cpath):
        for c in json.load(open(cpath)):
            cases.append(("regression:" + c.get("name", ""), c["opts"], P.doc_from_json(c["doc"])))
    for name, d in designed_docs():
        cases.append((name, dict(P.DEFAULT_OPTS), d))
        cases.append((name, P.rand_opts(rng), d))
        cases.append((name, dict(P.rand_opts(rng), align_values=True, newlinechar="\n"), d))
    n_files = ctx.budget(30, None)
    docs, n_unparsed = P.corpus_docs(rng, n_files=n_files, max_size=ctx.budget(30000, None))
    ctx.count("corpus_documents", len(docs))
    ctx.count("corpus_unparseable_skipped", n_unparsed)
    for name, d in docs:
        cases.append((name, dict(P.DEFAULT_OPTS), d))
        for _ in range(ctx.budget(1, 3)):
            cases.append((name, P.rand_opts(rng), d))
    n_gen = ctx.budget(500, 8000)
    types = P.object_types()
    from mappyfile.ordereddict import DefaultOrderedDict as DD
    for i in range(n_gen):
        ty = types[i % len(types)] if i < 3 * len(types) else rng.choice(["map", "layer", "class", "style", "label"] + types)
        d = P.gen_doc(rng, ty, p_key=rng.choice([0.2, 0.5, 0.9]), odd=rng.choice([0, 0, 0, 0.05, 0.3]),
                      comments=rng.choice([0, 0, 0.5]), cls=rng.choice([None, None, None, None, dict, DD]))
        cases.append(("gen:" + ty, P.rand_opts(rng), d))
    ctx.count("generated_documents", n_gen)
    # every option value at least once on one fixed document
    d0 = P.gen_doc(rng, "map", p_key=0.6)
    for i, o in enumerate(P.all_opts()):
        if ctx.quick() and i % 37 != 0:
            continue
        cases.append(("gen:map:product", o, d0))
    return cases


def real_dumps(d, o):
    import mappyfile
    return mappyfile.dumps(copy.deepcopy(d), **o)


def hunt_one(ctx, name, o, d, stats):
    """The property, stated on the real dumps output."""
    if not P.wf_doc(d):
        stats["skipped_not_wellformed"] += 1
        return
    if P.has_multiline(d):
        stats["skipped_multiline"] += 1
        return
    try:
        text = real_dumps(d, o)
    except Exception as ex:
        stats["dumps_raised:" + type(ex).__name__] += 1
        return
    stats["hunted"] += 1
    issues = layout.check_layout(text, o)
    seen = set()
    for fp, msg in issues:
        if fp in seen:
            continue
        seen.add(fp)
        stats["issue:" + fp] += 1
        if ctx.match_known(fp) is not None:
            ctx.violation(fp, msg, {})
            continue
        if stats["issue:" + fp] > 1:
            continue                # already reported (and shrunk) once in this run

        def fails(w, fp=fp):
            return any(f == fp for f, _ in layout.check_layout(real_dumps(w, o), o))
        small = P.shrink_doc(d, fails)
        try:
            stext = real_dumps(small, o)
            smsg = [m for f, m in layout.check_layout(stext, o) if f == fp][:1]
        except Exception:
            stext, smsg = text, [msg]
        ctx.violation(fp, "%s (document %s)" % ((smsg or [msg])[0], name),
                      {"doc": P.doc_to_json(small), "opts": o, "text": stext, "fingerprint": fp})


def first_diff_text(a, b):
    k = next((j for j in range(min(len(a), len(b))) if a[j] != b[j]), min(len(a), len(b)))
    return k, a[max(0, k - 40):k + 40], b[max(0, k - 40):k + 40]


def run(ctx):
    P.quiet()
    cases = gen_cases(ctx)
    stats = collections.Counter()
    # ---------------- correspondence O-lines
    if ctx.model_ok:
        model = P.model_lines([(o, d) for _, o, d in cases])
        n_bad = 0
        exc_hist = collections.Counter()
        for (name, o, d), mm in zip(cases, model):
            im = P.impl_lines(o, d)
            nontrivial = im[0] == "ok" and im[1].count(o["newlinechar"]) >= 2
            ctx.note_case(repr((sorted(o.items()), codec.enc_value(d) if isinstance(d, (dict, list, str, int, float, type(None))) else repr(d))),
                          nontrivial=nontrivial)
            if im[0] == "exc":
                exc_hist[P.EXC_NAME.get(im[1], str(im[1]))] += 1
            if im != mm:
                n_bad += 1
                if im[0] == "ok" and mm[0] == "ok" and im[1] != mm[1]:
                    detail = "text differs at %d: impl %r model %r" % first_diff_text(im[1], mm[1])
                elif im[0] == "ok" and mm[0] == "ok":
                    detail = "dict after the call differs"
                else:
                    detail = "impl %r model %r" % (im[:2] if im[0] == "exc" else "ok", mm[:2] if mm[0] != "ok" else "ok")
                ctx.violation("correspondence:O-lines", "model and implementation disagree on %s: %s" % (name, detail),
                              {"doc": P.doc_to_json(d), "opts": o, "detail": detail}, no_input=True)
        ctx.obligation("correspondence O-lines (model text / exception / dict-after = implementation on every case)", n_bad == 0,
                       "%d cases, %d disagreements" % (len(cases), n_bad))
        ctx.count("traces_validated_against_impl", len(cases))
        ctx.coverage["impl_exception_histogram"] = dict(exc_hist)
        # O-str / O-strip: the str()/repr()/strip primitives the printer relies on
        vals = str_values()
        ms = P.model_str(vals)
        bad_s = sum(1 for v, m in zip(vals, ms) if (str(v), repr(v)) != m)
        ws = [chr(c) + "a" + chr(c) for c in list(range(0, 0x3100)) + [0xfeff, 0x1f600] if not 0xd800 <= c < 0xe000]
        bad_w = sum(1 for s, m in zip(ws, P.model_strip(ws)) if s.strip() != m)
        ctx.obligation("correspondence O-str / O-strip (str, repr, json repr, str.strip)", bad_s == 0 and bad_w == 0,
                       "%d values, %d code points, %d+%d disagreements" % (len(vals), len(ws), bad_s, bad_w))
        if bad_s or bad_w:
            ctx.violation("correspondence:O-str", "str()/repr()/strip model disagrees with CPython on %d values" % (bad_s + bad_w), {}, no_input=True)
    # ---------------- hunter
    for name, o, d in cases:
        hunt_one(ctx, name, o, d, stats)
    ctx.coverage["hunter"] = dict(stats)
    ctx.count("hunter_documents", stats["hunted"])
    opt_hist = collections.Counter()
    for _, o, _ in cases:
        for k, v in o.items():
            opt_hist["%s=%r" % (k, v)] += 1
    ctx.coverage["option_histogram"] = dict(opt_hist)
    name, o, d = cases[-1]
    ctx.sample({"name": name, "opts": o, "doc": json.dumps(P.doc_to_json(d))[:400]})
    for name, o, d in cases:
        if name.startswith("tests/") or name.startswith("docs/"):
            try:
                ctx.sample({"name": name, "opts": o, "text_head": real_dumps(d, o)[:200]})
            except Exception:
                pass
            break


def str_values():
    from mappyfile.ordereddict import CaseInsensitiveOrderedDict as CI, DefaultOrderedDict as DD
    return [None, True, False, 0, -17, 12345678901234, 1.5, -0.25, 1e16, 1e15, 123456789012345.0, 1e-4, 1e-5, 1.5e-7, 2.5e+20, 0.0, 100.0, 1e22,
            3.14159, 1234.5678, -1e-10, 5e-324 if False else 0.001, "abc", "it's", 'say "hi"', "both ' and \"", "tab\tnl\nbs\\ \x01\x7f \xe9 \x80 \xa0 Ā \U0001f600",
            [1, "a", [2.5, None], {}], {"a": 1, "b": [1, "x"], "c": {"d": "e'"}},
            CI(CI, [("K", 1), ("b", [1, 2.5, "x\xe9\n\"q\"\\"]), ("c", {}), ("d", []), ("e", CI()), ("f", {"z": None, "y": True, "x": [[]]})]),
            DD(None, [("a", "\U0001f600\x7f\x1f")]), [CI(None, [("k", "v")])], {"a": CI(None, [("k", [1, {"b": 2}])])}, [], {}, CI(), [[]], [{}]]


def replay(ctx, body):
    P.quiet()
    r = body["replay"]
    d = P.doc_from_json(r["doc"])
    o = r["opts"]
    text = real_dumps(d, o)
    issues = layout.check_layout(text, o)
    print(text)
    hit = [i for i in issues if i[0] == r.get("fingerprint", body.get("fingerprint"))]
    print("replay: layout issues:", issues if issues else "none")
    return 1 if hit else 0
