"""C13: position and comment bookkeeping is transparent.

Runner: extracted model loads under the four flag combinations vs the real one.
Hunter: real loads / open / load under the four combinations - hidden keys
stripped, everything else identical to the plain load; the printer never prints
__position__ data; a dictionary loaded with bookkeeping prints, apart from
comment text, what the plain dictionary prints."""
import os, io, tempfile
from checklib import codec
from gens import docs, sweep, harness

MANIFEST = dict(
    technique="Coq universal theorems (logical relations over the lexer/LR/transformer model: for every text any two of the four loads that succeed agree after removing the hidden keys; acceptance alignment) + kernel-checked exhaustive evaluation (vm_compute) of the four-flag check on the schema-generated slot product + four-flag extracted-model correspondence",
    text=("Coq (Props/C13.v): [universal] for EVERY text, any two of the four loads (include_position x include_comments) that succeed are equal after removing every __position__ and __comments__ entry at every depth, and whenever one succeeds the plain load succeeds "
          "(Proofs/C13U*.v, C13C*.v: relations preserved by each of the 48 transformer callbacks, the comments transformer re-entering the main one, comment assignment, the tree builder with propagate_positions and the lexer's comment recording; "
          "the parser returns trees of the same shape and the same errors in both comment modes). The one-sided form for positions holds when the plain result has no key spelled __position__ and is REFUTED otherwise (known finding, same on the real loads); "
          "positions on<->off acceptance is aligned for every text (the tree-shape guard is discharged by the grammar-conformance theorem of the LR driver; stated for comments off); comments on->off acceptance holds for every text, off->on is REFUTED "
          "(an entry spelled __comments__ makes the comments run raise: known finding) and PROVED for every text under the guard KEYGUARD - no pair of a VALUES / METADATA / VALIDATION / CONNECTIONOPTIONS block has a key that, "
          "unquoted and lower-cased, is __comments__ (Proofs/C13C_Conv.v: totality of the comments transformer and callback on parser-shaped trees); under that guard the two comment modes accept exactly the same texts. "
          "[finite] for every document of the schema-generated slot product (about 2500 documents, regenerated from the schemas on every run) all four loads agree and succeed together, evaluated by the kernel. "
          "The model is tied to the code by running the extracted model and the real loads under all four flag combinations on the corpus and on generated documents with random # and /* */ comments. "
          "The hunter states the property against the real API through loads, open and load, checks the printer clauses, and probes entries whose key is spelled like a bookkeeping key."),
    design_ref="DESIGN.md 7/C13, 11.2",
    note="C13: Lark's propagate_positions and Transformer_InPlace traversal order are modelled.")

COMPONENTS = ["parser"]
TARGETS = []
RULE = "corpus files and schema-generated documents rendered with random comments/layouts, each under the four include_position x include_comments combinations; non-trivial = text longer than 40 characters"


def strip_bk(v):
    if isinstance(v, dict):
        return type(v)((k, strip_bk(x)) for k, x in v.items() if k not in ("__position__", "__comments__")) if not hasattr(v, "default_factory") \
            else [(k, strip_bk(x)) for k, x in v.items() if k not in ("__position__", "__comments__")]
    if isinstance(v, (list, tuple)):
        return [strip_bk(x) for x in v]
    return v


def canon_strip(v):
    """canonical visible content: (class code, ordered items) with bookkeeping keys removed"""
    if isinstance(v, dict):
        return ("dict", codec.cls_code(v), [(k, canon_strip(x)) for k, x in v.items() if k not in ("__position__", "__comments__")])
    if isinstance(v, (list, tuple)):
        return [canon_strip(x) for x in v]
    return codec.canon(v)


def drop_comments(v):
    if isinstance(v, dict):
        for k in list(v.keys()):
            if k == "__comments__":
                del v[k]
            else:
                drop_comments(v[k])
    elif isinstance(v, list):
        for x in v:
            drop_comments(x)


def run(ctx):
    import mappyfile, copy
    rng = ctx.rng
    corp = harness.corpus_files()
    rng.shuffle(corp)
    texts = [t for _, t in corp[:ctx.budget(40, 451)] if len(t) < ctx.budget(8000, 10**7)]
    for doc in harness.gen_documents(rng, ctx.budget(120, 2000), contract=True):
        lay = harness.random_layout(rng, comments=True)
        lay.comments = True
        texts.append(docs.render(doc, lay)[0])
    # directed: CR / CRLF / other separators inside token values, CRLF documents with and without comments
    texts += ['MAP\r\n NAME "two\r\nlines"\r\n LAYER\r\n  TYPE POINT\r\n  DATA \'a\rb\'\r\n END\r\nEND\r\n',
              'MAP\r\n NAME "x" # c1\r\n WEB\r\n  METADATA\r\n   "k" "multi\r\nline value" # c2\r\n  END\r\n END\r\nEND\r\n',
              'MAP\n NAME "ls\u2028sep\x0cff" # c\n LAYER\n  TYPE POINT\n  FILTER ("[a]" = "cr\r\nlf")\n END\nEND\n',
              'LAYER\r TYPE POINT\r NAME "only\rcr"\rEND\r']
    flags = [(False, False), (True, False), (False, True), (True, True)]
    # ---- correspondence under the four flag combinations
    if ctx.model_ok:
        cases = [(t, ip, ic) for t in texts for ip, ic in flags]
        mouts = harness.model_loads(cases)
        n_bad = 0
        for (t, ip, ic), m in zip(cases, mouts):
            a = harness.impl_loads(t, ip, ic)
            ok = harness.same_canon(a, m) or (isinstance(a, tuple) and isinstance(m, tuple) and a[:1] == ("exn",) and m[:1] == ("exn",) and a[1] == m[1])
            if not ok:
                n_bad += 1
                ctx.violation("correspondence:O-dict-flags", "model and implementation disagree under include_position=%s include_comments=%s" % (ip, ic),
                              {"text": t, "flags": [ip, ic], "impl": repr(a)[:800], "model": repr(m)[:800]}, no_input=True)
        ctx.count("traces_validated_against_impl", len(cases))
        ctx.obligation("correspondence O-dict under the four flag combinations (%d loads)" % len(cases), n_bad == 0, "%d disagreements" % n_bad)
    # ---- hunter
    tmp = tempfile.mkdtemp(prefix="verif_c13_")
    from mappyfile.pprint import PrettyPrinter
    shared_pp = PrettyPrinter()

    opt_printers = {}

    def dumps(d, i):
        # a reused printer for most cases (worker reuse is C12's subject), the module-level API for a share,
        # and for every third text a printer with non-default formatting options (the same one for the plain
        # and the bookkeeping dictionary of that text)
        if i % 3 == 1:
            if i not in opt_printers:
                opt_printers.clear()
                opt_printers[i] = PrettyPrinter(indent=rng.choice([0, 2, 4, 8]), spacer=rng.choice([" ", "\t"]), quote=rng.choice(['"', "'"]),
                                                newlinechar=rng.choice(["\n", "\r\n"]), end_comment=rng.random() < 0.5,
                                                align_values=rng.random() < 0.7, separate_complex_types=rng.random() < 0.3)
            return opt_printers[i].pprint(d)
        return mappyfile.dumps(d) if i % 8 == 0 else shared_pp.pprint(d)
    try:
        for i, t in enumerate(texts):
            ctx.note_case(t, nontrivial=len(t) > 40)
            try:
                # every fifth text goes through the module-level loads for all four combinations (the plain load first,
                # then the same text again with bookkeeping on), the others through reused workers / open / load
                plain = mappyfile.loads(t, expand_includes=False) if i % 5 == 3 else sweep.fast_loads(t, False, False)
            except Exception:
                # a rejected text must be rejected under every combination
                for ip, ic in flags[1:]:
                    try:
                        sweep.fast_loads(t, ip, ic)
                        ctx.violation("flags-change-acceptance", "text rejected by the plain load is accepted with include_position=%s include_comments=%s" % (ip, ic), {"text": t})
                    except Exception:
                        pass
                continue
            want = canon_strip(plain)
            plain_print = dumps(plain, i)
            for ip, ic in flags[1:]:
                via = (i % 10) if i % 10 in (1, 2) else (3 if i % 5 == 3 else 0)
                try:
                    if via == 3:
                        d = mappyfile.loads(t, expand_includes=False, include_position=ip, include_comments=ic)
                    elif via == 0:
                        d = sweep.fast_loads(t, ip, ic)
                    elif via == 1:
                        fn = os.path.join(tmp, "m.map")
                        with open(fn, "w", encoding="utf-8", newline="") as f:
                            f.write(t)
                        d = mappyfile.open(fn, expand_includes=False, include_position=ip, include_comments=ic)
                    else:
                        d = mappyfile.load(io.StringIO(t), expand_includes=False, include_position=ip, include_comments=ic)
                except Exception as ex:
                    ctx.violation("flags-change-acceptance", "text accepted by the plain load raises %s with include_position=%s include_comments=%s" % (type(ex).__name__, ip, ic), {"text": t, "flags": [ip, ic]})
                    continue
                # CR inside strings is C20's finding for the file front ends
                if via == 1 and "\r" in t:
                    continue
                got = canon_strip(d)
                if not harness.same_canon(got, want):
                    ctx.violation("flags-change-content:%s%s" % ("p" if ip else "", "c" if ic else ""),
                                  "visible keys/values/order differ from the plain load with include_position=%s include_comments=%s" % (ip, ic),
                                  {"text": t, "flags": [ip, ic], "plain": repr(want)[:600], "got": repr(got)[:600]})
                    continue
                # printer clauses
                try:
                    out = dumps(d, i)
                except Exception as ex:
                    ctx.violation("print-with-bookkeeping-raises", "dumps raises %s on a dictionary loaded with bookkeeping" % type(ex).__name__, {"text": t, "flags": [ip, ic]})
                    continue
                if not ic and out != plain_print:
                    ctx.violation("printer-prints-position", "dumps of a dictionary loaded with include_position differs from the plain print", {"text": t, "flags": [ip, ic]})
                if ic:
                    d2 = copy.deepcopy(d)
                    drop_comments(d2 if isinstance(d2, (dict, list)) else d2)
                    if dumps(d2, i) != plain_print:
                        ctx.violation("print-differs-beyond-comments", "with the comment entries removed, the print differs from the plain print", {"text": t, "flags": [ip, ic]})
        # ---- entries of key-value blocks whose key is spelled like a bookkeeping key (found by the
        # universal proof: the one-sided erasure statement is false of the model exactly there)
        for key in ("__position__", "__comments__"):
            for block in ("METADATA", "VALIDATION", "CONNECTIONOPTIONS"):
                host = "LAYER" if block == "CONNECTIONOPTIONS" else "MAP"
                t = '%s %s "%s" "x" "a" "b" END END' % (host, block, key)
                ctx.note_case(t, nontrivial=True)
                if ctx.model_ok:
                    mo = harness.model_loads([(t, ip, ic) for ip, ic in flags])
                    for (ip, ic), m in zip(flags, mo):
                        a = harness.impl_loads(t, ip, ic)
                        if not (harness.same_canon(a, m) or (isinstance(a, tuple) and isinstance(m, tuple) and a[:1] == ("exn",) and m[:1] == ("exn",) and a[1] == m[1])):
                            ctx.violation("correspondence:O-dict-flags", "model and implementation disagree on a reserved-key document under include_position=%s include_comments=%s" % (ip, ic),
                                          {"text": t, "flags": [ip, ic], "impl": repr(a)[:800], "model": repr(m)[:800]}, no_input=True)
                plain = sweep.fast_loads(t, False, False)
                for ip, ic in flags[1:]:
                    try:
                        d = sweep.fast_loads(t, ip, ic)
                    except Exception as ex:
                        ctx.violation("reserved-key:%s:raises" % key, "a %s entry whose key is %s loads plainly but raises %s with include_position=%s include_comments=%s"
                                      % (block, key, type(ex).__name__, ip, ic), {"text": t, "flags": [ip, ic]})
                        continue
                    if d[block.lower()].get(key) != plain[block.lower()][key] and (key == "__position__") == ip:
                        ctx.violation("reserved-key:%s:overwritten" % key, "the user's %s entry %s \"x\" is overwritten by the bookkeeping record with include_position=%s include_comments=%s"
                                      % (block, key, ip, ic), {"text": t, "flags": [ip, ic]})
    finally:
        import shutil
        shutil.rmtree(tmp, ignore_errors=True)
    ctx.sample({"text": texts[-1][:300]})
    ctx.sample({"corpus_text": texts[0][:200]})


def replay(ctx, body):
    t = body["replay"]["text"]
    plain = canon_strip(sweep.fast_loads(t))
    bad = 0
    for ip, ic in [(True, False), (False, True), (True, True)]:
        same = harness.same_canon(canon_strip(sweep.fast_loads(t, ip, ic)), plain)
        print("replay: flags", ip, ic, "same" if same else "DIFFER")
        bad += not same
    return 1 if bad else 0
