"""C02: the parsed dictionary follows the documented text-to-dict contract.

Runner: extracted model vs real parser/transformer at two observation points
(O-tree: token stream + parse tree; O-dict: loads) on corpus and generated
documents.  Hunter: real loads(render g) against the intended structure of the
generated document g (independent renderer + independent intended-structure
fold written from docs/transformer.rst), including duplicates, repeated keys,
multi-part POINTS, key-value blocks, CONFIG, nesting up to depth 5."""
import copy
from checklib import codec, parsing
from checklib.model import run_model
from gens import docs, sweep, harness

MANIFEST = dict(
    technique="Coq universal theorems on lexer/LR/tree-builder (tokens partition the text, tree leaves are fed tokens) and per-clause lemmas on transformer callbacks + kernel-checked slot-product reflection + extracted-model correspondence at token/tree/dict level",
    text=("Coq (Props/C02.v): [universal] for every accepted text the parse tree contains exactly tokens of the text at their recorded positions (nothing dropped, invented or moved before the transformer); "
          "clause lemmas universal in their arguments: int/float/boolean/hex-colour typing, quoted strings lose exactly their outer quotes, bare words verbatim, repeatable blocks appended under the plural key in source order and singleton blocks nested (last wins); "
          "[universal, Proofs/C02U*.v] for EVERY text: the result is a block dict or a list of block dicts, every key of every dict is lower-case, every block dict carries a lower-case string __type__, nothing is None; "
          "and, under a guard on the spelling of key tokens (no attribute spelled like a reserved name, a block name or a plural key - refuted without it: MAP LAYER ... END LAYERS 5 END), the documented contract in full "
          "(__type__ first, plural keys hold non-empty lists of blocks of that type, singleton names hold one block, repeatable keywords lists, CONFIG / key-value blocks dicts of strings with lower-case keys, POINTS/PATTERN number pairs, PROJECTION strings) "
          "together with the provenance of every leaf from one token of the text by the documented conversion; a keyword given twice keeps its last value, keys stand in first-occurrence order. "
          "[finite] every document of the schema-generated slot product loads, through the complete model, to exactly its intended structure (vm_compute, except the slots listed as C19 findings). "
          "PARTIAL: the two keyword-spelling conditions of the guard that hold of every real parse are assumed (no text-versus-type lemma for the lexer), and the equality transform T = Spec.dict_of T for all well-formed trees is not proved as one theorem; acceptance and derivation choice for unbounded documents rest on the reflection domain plus correspondence. "
          "The model is tied to the code by comparing token stream, parse tree (with meta) and dictionary of the extracted model with the real Lark/mappyfile objects on corpus files and generated documents; "
          "the hunter compares real loads with the intended structure of generated documents (depth <= 5, hundreds of objects, duplicates, repeated keys, multipart POINTS)."),
    design_ref="DESIGN.md 7/C02",
    note="C02: the intended-structure oracle is tools/gens/docs.py:intended_block, written from docs/transformer.rst and the property text.")

COMPONENTS = ["parser"]
TARGETS = []
RULE = "schema-generated documents (depth <= 5) with duplicates / repeated keys / multipart points injected, default and random layouts; corpus files for the correspondence; non-trivial = at least 3 items"


add_contract_cases = harness.add_contract_cases


def run(ctx):
    rng = ctx.rng
    documents = harness.gen_documents(rng, ctx.budget(200, 3000), max_depth=5)
    cases = []
    for doc in documents:
        for b in (doc if isinstance(doc, list) else [doc]):
            add_contract_cases(b, rng)
        lay = docs.Layout() if rng.random() < 0.5 else harness.random_layout(rng)
        cases.append((doc, docs.render(doc, lay)[0]))
    # ---- the contract's special cases, one by one, with the intended dictionary written out (independent of the
    # random documents, so that each clause is exercised in every run)
    import mappyfile
    from collections import OrderedDict as OD
    special = [
        ("pattern-twice", "STYLE PATTERN 5 5 2.5 1 END PATTERN 9 8 END END", OD([("__type__", "style"), ("pattern", [[9, 8]])])),
        ("pattern-once", "STYLE PATTERN 5 5 2.5 1 END END", OD([("__type__", "style"), ("pattern", [[5, 5], [2.5, 1]])])),
        ("points-once", "FEATURE POINTS 1 2 3.5 4 END END", OD([("__type__", "feature"), ("points", [[1, 2], [3.5, 4]])])),
        ("points-twice", "FEATURE POINTS 1 2 END POINTS 3 4 5 6 END END", OD([("__type__", "feature"), ("points", [[[1, 2]], [[3, 4], [5, 6]]])])),
        ("points-thrice", "FEATURE POINTS 1 2 END POINTS 3 4 END POINTS 5 6 END END", OD([("__type__", "feature"), ("points", [[[1, 2]], [[3, 4]], [[5, 6]]])])),
        ("keyword-twice", "MAP NAME 'a' DEBUG 1 NAME 'b' END", OD([("__type__", "map"), ("name", "b"), ("debug", 1)])),
        ("metadata-key-twice", "MAP METADATA 'Dup' '1' 'other' 'v' \"dup\" '2' END END",
         OD([("__type__", "map"), ("metadata", OD([("dup", "2"), ("other", "v"), ("__type__", "metadata")]))])),
        ("config-keys", "MAP CONFIG 'MS_ERRORFILE' 'stderr' CONFIG 'PROJ_LIB' '/p' CONFIG 'ms_errorfile' 'last' END",
         OD([("__type__", "map"), ("config", OD([("ms_errorfile", "last"), ("proj_lib", "/p")]))])),
        ("repeated-keyword-list", "LAYER TYPE POINT PROCESSING 'A=1' PROCESSING 'B=2' PROCESSING 'A=1' END",
         OD([("__type__", "layer"), ("type", "POINT"), ("processing", ["A=1", "B=2", "A=1"])])),
        ("repeatable-blocks-in-order", "MAP LAYER NAME 'l1' END NAME 'm' LAYER NAME 'l2' END END",
         OD([("__type__", "map"), ("layers", [OD([("__type__", "layer"), ("name", "l1")]), OD([("__type__", "layer"), ("name", "l2")])]), ("name", "m")])),
        ("singleton-last-wins", "MAP WEB IMAGEPATH '/a' END WEB IMAGEURL '/b' END END", OD([("__type__", "map"), ("web", OD([("__type__", "web"), ("imageurl", "/b")]))])),
        ("projection-strings", "MAP PROJECTION 'proj=utm' \"zone=15\" END END", OD([("__type__", "map"), ("projection", ["proj=utm", "zone=15"])])),
        ("numbers-typed", "MAP MAXSIZE 2 RESOLUTION 2.0 ANGLE -3 DEFRESOLUTION 1e2 END", OD([("__type__", "map"), ("maxsize", 2), ("resolution", 2.0), ("angle", -3), ("defresolution", 100.0)])),
        ("booleans", "SYMBOL FILLED TRUE ANTIALIAS false END", OD([("__type__", "symbol"), ("filled", True), ("antialias", False)])),
        ("hex-lowercased", "MAP IMAGECOLOR '#FF00AA' END", OD([("__type__", "map"), ("imagecolor", "#ff00aa")])),
        ("hex-alpha-lowercased", "STYLE COLORRANGE \"#FF00AACC\" '#00FFAAcc' END", OD([("__type__", "style"), ("colorrange", ["#ff00aacc", "#00ffaacc"])])),
        ("quotes-only-outer", "MAP NAME \"it's 'x'\" SHAPEPATH 'say \"y\"' END", OD([("__type__", "map"), ("name", "it's 'x'"), ("shapepath", 'say "y"')])),
        # list expressions are kept as written: every item keeps the spelling of its source token
        ("list-expression-number-spelling", "CLASS EXPRESSION {1.50,2} END", OD([("__type__", "class"), ("expression", "{1.50,2}")])),
        ("list-expression-signs-exponents", "CLASS EXPRESSION {007,+1,1e2} END", OD([("__type__", "class"), ("expression", "{007,+1,1e2}")])),
        ("list-expression-booleans", "CLASS EXPRESSION {TRUE,false} END", OD([("__type__", "class"), ("expression", "{TRUE,false}")])),
        ("list-expression-trailing-dot", "CLASS EXPRESSION {2.,-0.50} END", OD([("__type__", "class"), ("expression", "{2.,-0.50}")])),
        ("list-expression-inside-comparison", "CLASS EXPRESSION ([x] IN {1.50,007}) END", OD([("__type__", "class"), ("expression", "( [x] IN {1.50,007} )")])),
        ("list-expression-filter-words", "LAYER FILTER {a b,c} END", OD([("__type__", "layer"), ("filter", "{a b,c}")])),
        ("keys-lowercased", "map Name 'x' LAYER nAmE 'l' END end", OD([("__type__", "map"), ("name", "x"), ("layers", [OD([("__type__", "layer"), ("name", "l")])])])),
    ]
    for name, text, want in special:
        ctx.note_case(("special", name), nontrivial=True)
        try:
            got = docs.plain(mappyfile.loads(text))
        except Exception as ex:
            ctx.violation("contract-special:" + name, "%r is rejected: %s" % (text, type(ex).__name__), {"text": text})
            continue
        if not sweep.same(got, want):
            ctx.violation("contract-special:" + name, "loads(%r) = %r, the documented contract gives %r" % (text, got, want), {"text": text})
    # ---- hunter: real loads vs intended structure
    n_obj = 0
    for i, (doc, text) in enumerate(cases):
        want = [docs.intended_block(b) for b in doc] if isinstance(doc, list) else docs.intended_block(doc)
        ctx.note_case(text, nontrivial=text.count("\n") + text.count(" ") > 6)
        try:
            got = docs.plain(sweep.fast_loads(text) if i % 10 else mappyfile.loads(text))
        except Exception as ex:
            ctx.violation("generated-document-rejected:" + type(ex).__name__, "a document made of usable slots is rejected: %s" % str(ex)[:150], {"text": text})
            continue
        n_obj += text.upper().count("END")
        if not sweep.same(got, want):
            # locate the first differing key path
            def diff(a, b, path):
                if isinstance(a, dict) and isinstance(b, dict):
                    if list(a.keys()) != list(b.keys()):
                        return path + ": keys %r vs intended %r" % (list(a.keys())[:12], list(b.keys())[:12])
                    for k in a:
                        r = diff(a[k], b[k], path + "/" + k)
                        if r:
                            return r
                    return None
                if isinstance(a, list) and isinstance(b, list) and len(a) == len(b):
                    for j, (x, y) in enumerate(zip(a, b)):
                        r = diff(x, y, path + "[%d]" % j)
                        if r:
                            return r
                    return None
                return None if sweep.same(a, b) else path + ": %r vs intended %r" % (a, b)
            where = diff(got, want, "") or "structure"
            ctx.violation("contract:" + where.split(":")[0].split("/")[-1].split("[")[0], "loads differs from the documented contract at %s" % where[:300], {"text": text})
    ctx.count("objects_in_generated_documents", n_obj)
    # ---- the slot product itself: a slot that parses but yields another structure breaks the contract
    # (slots that do not parse at all are C19's findings)
    n_slots = 0
    for ot in docs.object_types():
        for it in docs.slot_items(ot):
            n_slots += 1
            for name, stage, det, text in sweep.check_slot(ot, it):
                if stage == "structure":
                    ctx.violation("contract-slot:%s.%s" % (ot, it.key), "%s %s (%s) loads to a structure other than the documented one in context %s" % (ot.upper(), it.key.upper(), it.shape, name),
                                  {"text": text})
                    break
    ctx.count("slots_checked", n_slots)
    # ---- correspondence O-tree and O-dict
    if ctx.model_ok:
        corp = harness.corpus_files()
        rng.shuffle(corp)
        texts = [t for _, t in cases] + [t for _, t, _ in special] + [t for _, t in corp[:ctx.budget(40, 451)] if len(t) < ctx.budget(20000, 10**7)]
        outs = run_model("parser", [(1, parsing.enc_parse_case(t, False)) for t in texts])
        n_bad = 0
        for t, o in zip(texts, outs):
            a = parsing.impl_parse(t, False)
            b = parsing.dec_parse_out(o)
            if a != b and not (a[1][0] == "exn" and b[1][0] == "exn" and a[1][1] == b[1][1]):
                n_bad += 1
                ctx.violation("correspondence:O-tree", "token stream / parse tree of model and implementation differ", {"text": t}, no_input=True)
        ctx.obligation("correspondence O-tree (token stream after the hook + parse tree) on %d texts" % len(texts), n_bad == 0, "%d disagreements" % n_bad)
        mouts = harness.model_loads([(t, False, False) for t in texts])
        n_bad2 = 0
        for t, m in zip(texts, mouts):
            a = harness.impl_loads(t)
            if not harness.same_canon(a, m) and not (a[0] == "exn" and m[0] == "exn" and a[1] == m[1]):
                n_bad2 += 1
                ctx.violation("correspondence:O-dict", "loads of model and implementation differ", {"text": t, "impl": repr(a)[:600], "model": repr(m)[:600]}, no_input=True)
        ctx.obligation("correspondence O-dict (loads) on %d texts" % len(texts), n_bad2 == 0, "%d disagreements" % n_bad2)
        ctx.count("traces_validated_against_impl", 2 * len(texts))
    ctx.sample({"text": cases[0][1][:400]})
    ctx.sample({"intended": repr(docs.intended_block(cases[0][0]) if not isinstance(cases[0][0], list) else "list of blocks")[:400]})


def replay(ctx, body):
    t = body["replay"]["text"]
    try:
        print("replay: loads ->", docs.plain(sweep.fast_loads(t)))
    except Exception as ex:
        print("replay: loads raises", type(ex).__name__, ex)
        return 1
    return 0
