"""C12: calls are pure, history-independent and safe to run concurrently.

Hunter (real API): arguments deep-compared before/after every public call;
one Parser / MapfileToDict / PrettyPrinter / Validator reused over random
document sequences (failing parses, comments on/off, differing versions)
against fresh objects; up to 16 real threads calling loads/dumps/validate/find*
on different and identical inputs under a tiny switch interval against the
sequential results.  Runner: the Parser state machine of the model against a
reused real Parser (O-hist)."""
import copy, sys, threading, pickle
from checklib import codec, parsing
from gens import docs, sweep, harness, mutate

MANIFEST = dict(
    technique="Coq state-machine theorem for the reused Parser, scheduler theorem for state-disjoint threads, regenerated shared-state obligation (AST scan) + real worker-reuse histories and real threads",
    text=("Coq (Props/C12.v): [universal] the result of Parser.parse on a reused object depends on the text only (the comment buffer is cleared at parse entry) and equals the stateless function all other theorems are about; "
          "[universal] for threads whose steps touch only their own state every interleaving gives each thread the result of its isolated run (induction over the schedule); "
          "[regenerated every run] an AST scan of mappyfile/*.py shows no function body rebinds or mutates a module-level name (a module-level parser/schema cache makes this obligation fail); "
          "[universal, Proofs/PrintU_Pure.v] with separate_complex_types off the dictionary after any successful print is the argument itself, with it on the argument is only reordered (stable partition of block-named keys in every dict descended into: a permutation at every level, values unchanged) - and refuted: it is reordered; [finite] the same on the slot product. The Validator's per-(name, version) caches are covered by C09's cache-coherence theorem. "
          "PARTIAL: real GIL schedules and third-party process-wide state (lark, jsonref, re caches) cannot be exhibited by the model: the hunter reuses the four worker objects over random document histories against fresh objects, "
          "deep-compares every argument before and after every public call, and runs 8-16 real threads under sys.setswitchinterval(1e-6) against sequential results."),
    design_ref="DESIGN.md 7/C12",
    note="C12: find/findall mutate Mapfile dicts lacking the key (known finding shared with C18).")

COMPONENTS = ["parser"]
TARGETS = []
RULE = "random histories of 6-20 documents (valid, malformed, with comments) on reused workers; purity on every call; thread pools of 8-16 threads x 6-12 calls on shared and distinct inputs; non-trivial = history longer than 3"


def snapshot(x):
    return pickle.dumps(codec.canon(x)) if not isinstance(x, str) else x


def outcome(f):
    try:
        return ("ok", f())
    except Exception as ex:  # noqa
        return ("exc", type(ex).__name__, str(ex)[:80])


def canon_out(r):
    if r[0] == "ok":
        v = r[1]
        return ("ok", v if isinstance(v, str) else codec.canon(v))
    return r[:2]


def run(ctx):
    import mappyfile
    from mappyfile.parser import Parser
    from mappyfile.transformer import MapfileToDict
    from mappyfile.pprint import PrettyPrinter
    from mappyfile.validator import Validator
    rng = ctx.rng
    gens = [docs.render(d, harness.random_layout(rng))[0] for d in harness.gen_documents(rng, 40)]
    corp = [t for _, t in harness.corpus_files() if len(t) < 4000]
    rng.shuffle(corp)
    pool_texts = gens + corp[:30] + [mutate.mutate(rng, t) for t in gens[:15]] + ["", "MAP", "foo bar", "MAP NAME 'x' # c\n END"]
    # ---- worker reuse histories
    n_hist = ctx.budget(8, 150)
    fresh_cache = {}
    for h in range(n_hist):
        ic = rng.random() < 0.5
        ip = rng.random() < 0.5
        P = Parser(expand_includes=False, include_comments=ic)
        M = MapfileToDict(include_position=ip, include_comments=ic)
        PP = PrettyPrinter(indent=rng.randrange(0, 5), quote=rng.choice(['"', "'"]))
        V = Validator()
        hist = [rng.choice(pool_texts) for _ in range(rng.randrange(6, ctx.budget(12, 21)))]
        ctx.note_case(("hist", h, ic, ip, tuple(hash(t) for t in hist)), nontrivial=len(hist) > 3)
        for step, t in enumerate(hist):
            reused = outcome(lambda: M.transform(P.parse(t)))
            if (t, ic, ip) not in fresh_cache:
                fresh_cache[(t, ic, ip)] = canon_out(outcome(lambda: MapfileToDict(include_position=ip, include_comments=ic).transform(
                    Parser(expand_includes=False, include_comments=ic).parse(t))))
            ctx.note_case(("step", h, step))
            if canon_out(reused) != fresh_cache[(t, ic, ip)]:
                ctx.violation("history:parser-or-transformer", "a reused Parser/MapfileToDict gives another result than fresh objects at step %d of a history" % step,
                              {"history": hist[:step + 1], "include_comments": ic, "include_position": ip})
                break
            if reused[0] != "ok":
                continue
            d = reused[1]
            before = snapshot(d)
            pr = outcome(lambda: PP.pprint(d))
            if snapshot(d) != before:
                ctx.violation("purity:dumps", "pprint (separate_complex_types off) modified its argument", {"text": t})
            kp = ("p", t, ic, ip, PP.indent, PP.quoter.quote)
            if kp not in fresh_cache:
                fresh_cache[kp] = canon_out(outcome(lambda: PrettyPrinter(indent=PP.indent, quote=PP.quoter.quote).pprint(copy.deepcopy(d))))
            if canon_out(pr) != fresh_cache[kp]:
                ctx.violation("history:printer", "a reused PrettyPrinter prints differently from a fresh one", {"history": hist[:step + 1]})
                break
            ver = rng.choice([None, 6.0, 7.0, 7.6, 8.0, 8.2])
            vr = outcome(lambda: V.validate(d, version=ver))
            if snapshot(d) != before:
                ctx.violation("purity:validate", "validate (add_comments off) modified its argument", {"text": t, "version": ver})
            kv = ("v", t, ic, ip, ver)
            if kv not in fresh_cache:
                fresh_cache[kv] = canon_out(outcome(lambda: Validator().validate(copy.deepcopy(d), version=ver)))
            if canon_out(vr) != fresh_cache[kv]:
                ctx.violation("history:validator", "a reused Validator answers differently from a fresh one (version %r)" % ver, {"history": hist[:step + 1], "version": ver})
                break
    # ---- directed histories on one reused comments parser: documents whose comments stay unattached (after the last
    # keyword, after END, at the end of the file) followed by documents with nodes on those lines - every ordered
    # pair and triple of the pool against fresh objects
    cpool = ["MAP\n NAME 'a'\nEND\n# dangling after end\n", "MAP\n NAME 'a'\n# dangling before end\nEND\n",
             "MAP\n\n\n LAYER\n  NAME 'l'\n  TYPE POINT\n END\nEND\n", "# head\nMAP # m\n NAME 'c' # n\nEND\n",
             "MAP\n NAME 'x'\n WEB\n  METADATA\n   'k' 'v' # kv\n  END\n END\n /* tail */\nEND\n", "LAYER\n TYPE POINT\n CLASS\n  NAME 'c'\n END\nEND\n"]
    import itertools
    seqs = list(itertools.permutations(range(len(cpool)), 2)) + [s3 for s3 in itertools.permutations(range(len(cpool)), 3)][::ctx.budget(6, 1)]
    fresh_c = {}
    for ip in (False, True):
        P = Parser(expand_includes=False, include_comments=True)
        M = MapfileToDict(include_position=ip, include_comments=True)
        for seq in seqs:
            ctx.note_case(("comment-history", ip, seq), nontrivial=True)
            for step, i in enumerate(seq):
                t = cpool[i]
                reused = canon_out(outcome(lambda: M.transform(P.parse(t))))
                if (i, ip) not in fresh_c:
                    fresh_c[(i, ip)] = canon_out(outcome(lambda: MapfileToDict(include_position=ip, include_comments=True).transform(
                        Parser(expand_includes=False, include_comments=True).parse(t))))
                if reused != fresh_c[(i, ip)]:
                    ctx.violation("history:parser-or-transformer", "a reused comments Parser/MapfileToDict gives another result than fresh objects at step %d of a directed history" % step,
                                  {"history": [cpool[j] for j in seq[:step + 1]], "include_comments": True, "include_position": ip})
                    break
            else:
                continue
            break
    # ---- directed purity of validate: every kind of error location (root, object in a list, nested singleton, keyword,
    # item of a list-valued keyword, repeatable keyword) with and without recorded positions, through the public entry
    # point and a reused Validator, twice in a row
    faulty = ["MAP\n LAYER\n  NAME 'a'\n END\nEND", "MAP LAYER TYPE POINT CLASS NOSUCH 1 END END END", "MAP NOSUCH 1 END", "MAP WEB NOSUCH 1 END END",
              "MAP SIZE 10.5 20 END", "MAP LAYER TYPE POINT PROCESSING 5 END END", "MAP LAYER TYPE bad END LAYER NAME 'b' END END",
              "MAP LAYER TYPE POINT CLASS STYLE COLOR 1 2 300 END END END END", "MAP NAME 'fine' END"]
    Vr = Validator()
    for t in faulty:
        for ip in (False, True):
            for ver in (None, 8.0):
                ctx.note_case(("validate-purity", t, ip, ver))
                try:
                    d = mappyfile.loads(t, expand_includes=False, include_position=ip)
                except Exception:
                    continue
                before = snapshot(d)
                r1 = canon_out(outcome(lambda: mappyfile.validate(d, version=ver)))
                mid = snapshot(d)
                r2 = canon_out(outcome(lambda: Vr.validate(d, version=ver)))
                if mid != before or snapshot(d) != before:
                    ctx.violation("purity:validate", "validate (add_comments off) modified its argument", {"text": t, "version": ver, "include_position": ip})
                elif r1 != r2:
                    ctx.violation("history:validator", "validating the same dictionary again (reused Validator) answers differently (version %r)" % ver, {"text": t, "version": ver, "include_position": ip})
    # ---- directed purity of dumps: every kind of value the printer rewrites while formatting (string items of lists,
    # bindings, key-value blocks, repeated keywords, projections, expressions), default options and a few option sets
    printable = ['STYLE COLORRANGE "#0000ff" "#ff0000" DATARANGE 1 2 END', 'LABEL OFFSET [ox] [oy] SHADOWSIZE 2 [sz] END', 'STYLE POLAROFFSET [r] [a] END',
                 "MAP WEB METADATA 'a' 'b' 'c' 'd' END END CONFIG 'K' 'v' PROJECTION 'init=epsg:4326' END END",
                 'LAYER TYPE POINT PROCESSING "A=1" PROCESSING "B=2" CLASS EXPRESSION ([a] > 1) TEXT ([n]) END END', 'MAP EXTENT 0 0 10 10 LAYER TYPE LINE FEATURE POINTS 1 1 2 2 END END END END']
    for t in printable:
        try:
            d = sweep.fast_loads(t)
        except Exception:
            continue
        for kw in ({}, {"quote": "'"}, {"align_values": True, "end_comment": True}, {"indent": 0, "newlinechar": "\r\n"}):
            ctx.note_case(("dumps-purity", t, tuple(sorted(kw.items()))))
            before = snapshot(d)
            r = outcome(lambda: mappyfile.dumps(d, **kw))
            if snapshot(d) != before:
                ctx.violation("purity:dumps", "dumps (separate_complex_types off) modified its argument", {"text": t, "options": kw})
                break
    # ---- purity of the query helpers on dictionaries that HAVE the key (lacking keys: C18's known finding)
    for t in gens[:ctx.budget(20, 40)]:
        try:
            d = sweep.fast_loads(t)
        except Exception:
            continue
        layers = d.get("layers") if isinstance(d, dict) else None
        if not layers or not all("name" in l for l in layers):
            continue
        before = snapshot(d)
        mappyfile.find(layers, "name", layers[0]["name"])
        mappyfile.findall(layers, "name", [layers[0]["name"]])
        mappyfile.findunique(layers, "name")
        mappyfile.findkey(d, "layers", 0)
        ctx.note_case(("find", hash(t)))
        if snapshot(d) != before:
            ctx.violation("purity:find-helpers", "a query helper modified its argument although every item has the key", {"text": t})
    # ---- real threads
    ok_texts = []
    for t in (gens + corp[:20])[:ctx.budget(10, 60)]:
        r = outcome(lambda: mappyfile.loads(t, expand_includes=False))
        if r[0] == "ok":
            ok_texts.append(t)
    ok_texts = ok_texts[:ctx.budget(6, 30)]
    # distinct commented documents: with include_comments the comment bookkeeping of concurrent calls must not mix
    commented = []
    for i in range(ctx.budget(8, 24)):
        commented.append("# head %d\nMAP # map %d\n  NAME 'm%d' # name %d\n  /* block %d */\n  LAYER # layer %d\n    NAME 'l%d' # lname %d\n    TYPE POINT # type %d\n"
                         "    METADATA 'k' 'v%d' # kv %d\n    END\n  END # endlayer %d\nEND # endmap %d\n" % ((i,) * 13))

    def call(t, ip, ic):
        d = mappyfile.loads(t, expand_includes=False, include_position=ip, include_comments=ic)
        return (codec.canon(d), mappyfile.dumps(d), codec.canon(mappyfile.validate(d)))
    seq = {}
    for t in ok_texts + commented:
        for ip, ic in ((False, False), (True, False), (False, True), (True, True)):
            seq[(t, ip, ic)] = call(t, ip, ic)
    old = sys.getswitchinterval()
    sys.setswitchinterval(1e-6)
    errors = []
    try:
        for rnd in range(ctx.budget(2, 8)):
            n_threads = rng.choice([8, 12, 16]) if ctx.tier == 'thorough' else 8
            shared = rng.random() < 0.5
            with_comments = rnd % 2 == 1
            pool = commented if with_comments else ok_texts
            plans = []
            for i in range(n_threads):
                k = rng.randrange(2, ctx.budget(4, 7))
                plans.append([(pool[0] if shared else pool[(i + j) % len(pool)], rng.random() < 0.5, with_comments) for j in range(k)])
            ctx.note_case(("threads", rnd, n_threads, shared, with_comments))

            def work(plan, idx):
                try:
                    for t, ip, ic in plan:
                        got = call(t, ip, ic)
                        if got != seq[(t, ip, ic)]:
                            errors.append((idx, t, "result differs from the sequential call (include_position=%s include_comments=%s)" % (ip, ic)))
                except Exception as ex:  # noqa
                    errors.append((idx, plan[0][0], "raised %s: %s" % (type(ex).__name__, str(ex)[:100])))
            ths = [threading.Thread(target=work, args=(p, i)) for i, p in enumerate(plans)]
            for th in ths:
                th.start()
            for th in ths:
                th.join(300)
            ctx.count("thread_calls", sum(len(p) for p in plans))
    finally:
        sys.setswitchinterval(old)
    for idx, t, what in errors[:3]:
        ctx.violation("threads:" + what.split(":")[0].split(" ")[0], "concurrent call in thread %d: %s" % (idx, what), {"text": t})
    # ---- O-hist: the model's Parser state machine is stateless w.r.t. history; the real reused parser must
    # produce the tree the model's stateless parse produces (token stream + tree + comments)
    if ctx.model_ok:
        from checklib.model import run_model
        P2 = {False: Parser(expand_includes=False, include_comments=False), True: Parser(expand_includes=False, include_comments=True)}
        hist = [(rng.choice(pool_texts), rng.random() < 0.5) for _ in range(ctx.budget(60, 600))]
        hist = [(t, ic) for t, ic in hist if len(t) < 4000]
        outs = run_model("parser", [(1, parsing.enc_parse_case(t, ic)) for t, ic in hist])
        n_bad = 0
        for (t, ic), o in zip(hist, outs):
            a = parsing.impl_parse(t, ic, parser=P2[ic])
            b = parsing.dec_parse_out(o)
            if a != b and not (a[1][0] == "exn" and b[1][0] == "exn" and a[1][1] == b[1][1]):
                n_bad += 1
                ctx.violation("correspondence:O-hist", "a reused real Parser deviates from the model's stateless parse after some history", {"text": t, "include_comments": ic}, no_input=True)
        ctx.obligation("correspondence O-hist: %d parses on two reused real Parser objects = the model's stateless parse" % len(hist), n_bad == 0, "%d disagreements" % n_bad)
        ctx.count("traces_validated_against_impl", len(hist))
    ctx.sample({"history_element": pool_texts[0][:200]})
    ctx.sample({"threads": "8/12/16 threads x 3-6 calls, switch interval 1e-6, shared or distinct inputs"})


def replay(ctx, body):
    print("replay:", body["what"])
    return 0
