"""C14: kept comments are verbatim, never invented or duplicated, and stay attached.

Runner: extracted model loads(include_comments=True) vs the real one (the
__comments__ entries included) and printer model vs real printer on those
dictionaries.  Hunter: comments placed by an independent renderer at the end of
every simple keyword line and above every block opener; the real
dumps(loads(.., include_comments=True)) must write only source comments, none
more often than it occurs, keep trailing comments on their keyword's line and
block comments directly above their block, and load to the same content."""
import re, copy
from collections import Counter
from checklib import codec
from gens import docs, sweep, harness, rt

MANIFEST = dict(
    technique="Coq universal theorems end to end (multiset inclusion of stored and written comments in the source comment tokens) + Coq theorem: comment assignment is a linear resource (permutation invariant by induction over the tree walk) + verbatim lemma for the comment dictionary + extracted-model correspondence with comments on",
    text=("Coq (Props/C14.v): [universal] for every text, the comments _assign_comments attaches to tree nodes together with the ones it leaves over are a permutation of the line-indexed comment dictionary (no comment attached twice, none invented; "
          "induction over the walk, for trees the parser builds - shown to carry no comments beforehand), and every dictionary entry is the exact stripped text of a source comment token on that line. "
          "[universal, Proofs/C14U*.v] end to end for every text, either position mode and every printer option set: the comment strings stored in the loaded dictionary, and the comment items dumps writes for it, counted with multiplicity, are sub-multisets of the "
          "stripped texts of the source's comment tokens - every comment written is the exact text of a source comment and none is written more often than it occurs (traced printer factorisation; the printer guard is discharged for every loaded dictionary). "
          "PARTIAL: the printer's placement (trailing / directly above) and the content clause are not theorems; they are tied by running the extracted model with include_comments=True against the real loads "
          "(all __comments__ entries compared) and the extracted printer against the real one on those dictionaries, and checked on the real API by the hunter on generated one-keyword-per-line documents with # and C comments at every allowed place and on the corpus' own comments."),
    design_ref="DESIGN.md 7/C14",
    note="C14: several comments attached to one keyword are joined by one space on that keyword's line (docs/comments.rst); the text-level check accepts a written comment iff it is a source comment or such a join.")

COMPONENTS = ["parser", "printer"]
TARGETS = []
RULE = "generated documents in one-keyword-per-line layout with a unique comment after every simple single-line keyword and above every object / METADATA / VALIDATION / CONNECTIONOPTIONS opener; corpus files with their own comments; non-trivial = at least 2 comments"

AWKWARD_INSIDE = ["\t", "\f", "\v", "\x1c", "\x1d", "\x1e", "\x85", "\u2028", "\u2029", " # ", " \"q' ", "   ", " END ", " \u00e9\u00df "]

COMMENT_RE = re.compile(r"#[^\n]*|/\*.*?\*/", re.S)


def render_commented(doc, rng, newline="\n"):
    """one keyword per line; returns (text, trailing: {comment: KEY}, above: {comment: OPENER})"""
    out = []
    trailing, above = {}, {}
    n = [0]

    def new_comment(kind):
        n[0] += 1
        body = "%s-%d" % (kind, n[0])
        if rng.random() < 0.3:
            # awkward characters INSIDE the comment (never at its ends, never a line feed): characters str.splitlines()
            # treats as line boundaries, tabs, a second '#', quotes, block words, non-ASCII letters
            body += rng.choice(AWKWARD_INSIDE) + "tail"
        return ("# " + body) if rng.random() < 0.7 else ("/* " + body + " */")

    def block(b, depth):
        ind = "  " * depth
        if rng.random() < 0.7:
            k = rng.randrange(1, 3)
            for _ in range(k):
                c = new_comment("above")
                above[c] = b.type.upper()
                out.append(ind + c)
        out.append(ind + b.type.upper())
        for it in b.items:
            if isinstance(it, docs.Block):
                block(it, depth + 1)
                continue
            w = docs.Writer(docs.Layout())
            if it.kind == "kv":
                if rng.random() < 0.7 and it.key in ("metadata", "validation", "connectionoptions"):
                    c = new_comment("above")
                    above[c] = it.key.upper()
                    out.append(ind + "  " + c)
                toks = it.tokens
                out.append(ind + "  " + toks[0].text.upper())
                for a, v in zip(toks[1:-1:2], toks[2:-1:2]):
                    out.append(ind + '    "%s" "%s"' % (a.text, v.text))
                out.append(ind + "  END")
                continue
            if it.repeated:
                for a, v in zip(it.tokens[0::2], it.tokens[1::2]):
                    w2 = docs.Writer(docs.Layout()); w2.token(a); w2.emit(" "); w2.token(v)
                    line = ind + "  " + "".join(w2.out)
                    if rng.random() < 0.5:
                        # comments on repeated keywords may migrate or vanish, but must never be duplicated or altered
                        line += " " + new_comment("rep")
                    out.append(line)
                continue
            for i, t in enumerate(it.tokens):
                w.token(t)
                if i < len(it.tokens) - 1:
                    w.emit(" ")
            line = ind + "  " + "".join(w.out)
            simple = it.kind == "attr" and not it.repeated and "\n" not in line
            if simple and rng.random() < 0.8:
                c = new_comment("trail")
                if c.startswith("#"):
                    trailing[c] = it.key.upper()
                    line += " " + c
            out.append(line)
        out.append(ind + "END")

    for b in (doc if isinstance(doc, list) else [doc]):
        block(b, 0)
    return newline.join(out) + newline, trailing, above


def source_comments(text):
    """comment tokens of a source text, outside quoted strings (independent scan)"""
    res = []
    i, n = 0, len(text)
    while i < n:
        ch = text[i]
        if ch in "\"'":
            j = i + 1
            while j < n and text[j] != ch:
                j += 2 if text[j] == "\\" and j + 1 < n and text[j + 1] == ch else 1
            i = j + 1
        elif ch == "#":
            j = text.find("\n", i)
            j = n if j < 0 else j
            res.append(text[i:j].strip())
            i = j
        elif text.startswith("/*", i):
            j = text.find("*/", i + 2)
            j = n if j < 0 else j + 2
            res.append(text[i:j].strip())
            i = j
        else:
            i += 1
    return res


def written_items(d):
    """all comment items stored in __comments__ at any depth"""
    items = []
    if isinstance(d, dict):
        for k, v in d.items():
            if k == "__comments__" and isinstance(v, dict):
                for kk, vv in v.items():
                    items += list(vv) if isinstance(vv, (list, tuple)) else [vv]
            else:
                items += written_items(v)
    elif isinstance(d, list):
        for x in d:
            items += written_items(x)
    return items


def joined_of(tok, src):
    """is tok a single-space join of source comments (a source comment may itself contain # or blanks)"""
    keys = [c for c in src if c]
    seen = set()

    def go(i):
        if i == len(tok):
            return True
        if i in seen:
            return False
        seen.add(i)
        for c in keys:
            if tok.startswith(c, i):
                j = i + len(c)
                if j == len(tok) or (tok[j] == " " and go(j + 1)):
                    return True
        return False
    return go(0)


def run(ctx):
    import mappyfile
    from mappyfile.pprint import PrettyPrinter
    rng = ctx.rng
    pp = PrettyPrinter()
    cases = []
    for doc in harness.gen_documents(rng, ctx.budget(150, 2500), max_depth=3, vary=False):
        nl = "\r\n" if rng.random() < 0.2 else "\n"
        text, trailing, above = render_commented(doc, rng, nl)
        cases.append((text, trailing, above))
    # directed (deterministic): every awkward inside-character once in a trailing comment and once above an opener
    dl, dtrail, dabove = ["MAP"], {}, {}
    for i, a in enumerate(AWKWARD_INSIDE):
        c1, c2 = "# u-%d%stail" % (i, a), "# d-%d%stail" % (i, a)
        dabove[c1] = "LAYER"
        dtrail[c2] = "NAME"
        dl += ["  " + c1, "  LAYER", "    NAME 'l%d' %s" % (i, c2), "  END"]
    dl.append("END")
    cases.insert(0, ("\n".join(dl) + "\n", dtrail, dabove))
    corp = [(f, t) for f, t in harness.corpus_files() if ("#" in t or "/*" in t) and len(t) < 12000]
    rng.shuffle(corp)
    for f, t in corp[:ctx.budget(40, 436)]:
        cases.append((t, None, None))
    loaded = []
    for text, trailing, above in cases:
        try:
            d = sweep.fast_loads(text, False, True)
            d_plain = sweep.fast_loads(text, False, False)
        except Exception:
            continue
        src = Counter(source_comments(text))
        ctx.note_case(text, nontrivial=sum(src.values()) >= 2)
        if rt.excluded(d_plain):
            continue
        if rt.roundtrip_failure(d_plain, sweep.fast_loads, pp.pprint):
            ctx.count("skipped_c01_findings")
            continue                # the plain round trip already fails: C01's findings, not comment handling
        try:
            out = pp.pprint(copy.deepcopy(d))
            out_plain = pp.pprint(copy.deepcopy(d_plain))
        except Exception as ex:
            if trailing is not None:
                ctx.violation("dumps-raises-with-comments:" + type(ex).__name__, "dumps raises on a dictionary loaded with comments", {"text": text})
            continue
        loaded.append(d)
        # (1) verbatim, no invention, no duplication - on the items the printer writes
        items = Counter(written_items(d))
        for c, k in items.items():
            if src.get(c, 0) < k:
                kind = "invented" if c not in src else "duplicated"
                ctx.violation("comment-" + kind, "comment %r is written %d time(s) but occurs %d time(s) in the source" % (c, k, src.get(c, 0)), {"text": text})
                break
        # text level: every comment token of the output is a source comment or a single-space join of some
        for tok in source_comments(out):
            if tok in src:
                continue
            if not joined_of(tok, src):
                ctx.violation("comment-text-altered", "the output contains the comment %r which is not a source comment" % tok, {"text": text, "printed": out})
                break
        # (2) same content with and without comments
        try:
            back = rt.plain_all(sweep.fast_loads(out))
            back_plain = rt.plain_all(sweep.fast_loads(out_plain))
            if not sweep.same(back, back_plain):
                ctx.violation("comments-change-content", "output with comments loads to other content than output without", {"text": text, "printed": out})
        except Exception as ex:
            try:
                sweep.fast_loads(out_plain)
                ctx.violation("output-with-comments-rejected", "output with comments is rejected although the output without is accepted: %s" % str(ex)[:100], {"text": text, "printed": out})
            except Exception:
                pass           # C01 territory
        if trailing is None:
            continue
        lines = out.split("\n")
        # (3) trailing comments stay on their keyword's line
        for c, key in trailing.items():
            hits = [ln for ln in lines if ln.rstrip().endswith(c)]
            if not hits:
                ctx.violation("trailing-comment-lost", "the trailing comment %r of %s is not at the end of any line" % (c, key), {"text": text, "printed": out})
                break
            if not any(ln.strip().upper().startswith(key + " ") for ln in hits):
                ctx.violation("trailing-comment-migrated", "the trailing comment %r of %s is written on the line %r" % (c, key, hits[0].strip()), {"text": text, "printed": out})
                break
        # (4) comments above an opener stay directly above it
        for c, opener in above.items():
            idx = [i for i, ln in enumerate(lines) if ln.strip() == c]
            if not idx:
                ctx.violation("block-comment-lost", "the comment %r above %s is not written on its own line" % (c, opener), {"text": text, "printed": out})
                break
            j = idx[0] + 1
            while j < len(lines) and (lines[j].strip().startswith("#") or lines[j].strip().startswith("/*")):
                j += 1
            if j >= len(lines) or lines[j].strip().upper() != opener:
                ctx.violation("block-comment-migrated", "the comment %r written above %s is followed by %r" % (c, opener, lines[j].strip() if j < len(lines) else None), {"text": text, "printed": out})
                break
    # ---- correspondence with comments on
    if ctx.model_ok:
        sel = [t for t, _, _ in cases if len(t) < 12000]
        if len(sel) > ctx.budget(150, 2000):
            sel = rng.sample(sel, ctx.budget(150, 2000))
        mouts = harness.model_loads([(t, False, True) for t in sel])
        n_bad = 0
        for t, m in zip(sel, mouts):
            a = harness.impl_loads(t, False, True)
            if not harness.same_canon(a, m) and not (a[0] == "exn" and m[0] == "exn" and a[1] == m[1]):
                n_bad += 1
                ctx.violation("correspondence:O-dict-comments", "loads(include_comments=True) of model and implementation differ", {"text": t, "impl": repr(a)[:500], "model": repr(m)[:500]}, no_input=True)
        ctx.obligation("correspondence O-dict with comments on (%d texts, every __comments__ entry compared)" % len(sel), n_bad == 0, "%d disagreements" % n_bad)
        from corr import printer as P
        dsel = loaded if len(loaded) < ctx.budget(120, 1500) else rng.sample(loaded, ctx.budget(120, 1500))
        outs = P.model_lines([(P.DEFAULT_OPTS, d) for d in dsel])
        n_bad2 = 0
        for d, m in zip(dsel, outs):
            a = P.impl_lines(P.DEFAULT_OPTS, d)
            if a != m:
                n_bad2 += 1
                ctx.violation("correspondence:O-lines-comments", "printer model and PrettyPrinter disagree on a dictionary with comments", {"impl": repr(a)[:500], "model": repr(m)[:500]}, no_input=True)
        ctx.obligation("correspondence O-lines on %d dictionaries with comments" % len(dsel), n_bad2 == 0, "%d disagreements" % n_bad2)
        ctx.count("traces_validated_against_impl", len(sel) + len(dsel))
    ctx.sample({"text": cases[0][0][:400]})
    ctx.sample({"trailing": dict(list((cases[0][1] or {}).items())[:3]), "above": dict(list((cases[0][2] or {}).items())[:3])})


def replay(ctx, body):
    import mappyfile
    t = body["replay"]["text"]
    d = mappyfile.loads(t, include_comments=True, expand_includes=False)
    print(mappyfile.dumps(d))
    return 0
