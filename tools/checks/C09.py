"""C09: version-aware validation follows minVersion / maxVersion.

Correspondence: O-ver (extracted get_versioned_schema walked = the real one, every
schema name x boundary versions), O-val at versions, O-hist (call histories on one
Validator vs the model's state machine), str(version) for the cache key.
Hunters (independent oracles, no Coq model): the exported schema equals the
declaratively pruned schema; every annotated entry x boundary versions x parent
context is accepted exactly as the pruned schema says (and exactly in range when
nothing else accepts the value), with all calls interleaved on one Validator and
re-checked on fresh ones; histories vs fresh Validators."""
import copy, json, os
from checklib import codec
from checklib.model import run_model
from checks import _valcommon as vc
from checks import _valgen as vg

MANIFEST = dict(
    technique="Coq: range lemma on exact decimals (related to Q), version-parametricity of the in-place store pruning, kernel-evaluated checks over the generated schema files at 2|B|+1 representative versions lifted to all versions, state-machine induction for the caches; extracted-model correspondence + independent Python oracles",
    text=("Coq theorems (Props/C09.v, 14, all closed) over a model of Validator in which a jsonref load is a root document plus a store of shared file objects and "
          "get_versioned_properties mutates that store in place: C09_range_test [U] (is_valid_for_version is True iff min <= v <= max on the rationals, defaults 0.0/1000.0); "
          "C09_prune_parametric [U] (pruning depends on the version only through its comparisons with the bound numbers occurring in the load; universal over stores, documents, fuel, versions) and C09_representatives [U]+[F]; "
          "C09_every_annotation_every_version / C09_validate_uses_pruned_schema [F]+[U] (for EVERY truthy version the schema get_versioned_schema returns and validate runs on for root map is, as a walked tree, "
          "the expanded schema with each annotated keyword/object/alternative removed exactly when out of range, at every depth and below lists, nothing else changed; re-proved against the regenerated schema files on every build); "
          "C09_versionless_unpruned; C09_prune_idem and C09_prune_fails_only_without_properties [F]+[U] (all 37 schema files, every version); "
          "C09_prune_spec_partial (per-file characterisation of the traversal: dict-reachable files locally pruned, others untouched, no visit order - for the generated files and every version, not for arbitrary stores) and C09_all_blocks_dict_reachable [F]; "
          "C09_cache_coherent [U] (every history of validate/get_versioned_schema/get_expanded_schema calls on one Validator answers like fresh Validators, under the stated side condition that the cache keys name+str(version) of the history do not collide); "
          "C09_cache_key_collision_refuted [R] ('hex'+str(2) = 'hex2'). "
          "Tie to validator.py: extracted model vs real get_versioned_schema (walked proxy tree) for every schema name x every bound, just below, just above, None, 0, ints; validate at versions on generated documents; random call histories on one Validator; str(version)."),
    design_ref="DESIGN.md 7/C09",
    note="C09: jsonref (one shared object per referenced file within one load) and jsonschema are modelled, tied by O-ver/O-val/O-hist. Validation with schema_name other than map leaves symbol.json unpruned below style.symbol (outside the property's observation points; reported, not a violation). Versions outside [0, 1000] delete every properties dict that has a METADATA keyword (default range applies); outside the property's quantifier, covered by the Coq statement.")

COMPONENTS = ["validator"]
TARGETS = []
RULE = ("O-ver: every schema name x {each of the 14 bounds, bound-0.1, bound+0.1, None, 0.0, ints} (quick: all for map, 4 sampled versions for the other names); "
        "hunter: every annotated schema entry (walked from the raw files) x its own bounds +-0.1 and None x every parent context from root map, minimal document per case, "
        "all calls shuffled on ONE Validator, sample repeated on fresh Validators; generated documents validated at sampled versions; random call histories of length 3-10. "
        "Non-trivial: a case whose version lies strictly inside the bound range of the schemas (not None) or a history with at least two different versions; distinct by (entry, context, version) / repr of the case.")


def boundary_versions(raw):
    vs = [None]
    for b in vg.all_bounds(raw):
        for v in (round(b - 0.1, 1), b, round(b + 0.1, 1)):
            if v not in vs:
                vs.append(v)
    return vs


def tree_diff(a, b, path=()):
    """first difference between two plain JSON trees, as (path, what)."""
    if isinstance(a, dict) and isinstance(b, dict):
        if list(a.keys()) != list(b.keys()):
            extra = [k for k in a if k not in b]
            missing = [k for k in b if k not in a]
            return (path, "keys: only in first %s, only in second %s" % (extra, missing) if (extra or missing) else "key order")
        for k in a:
            d = tree_diff(a[k], b[k], path + (k,))
            if d:
                return d
        return None
    if isinstance(a, list) and isinstance(b, list):
        if len(a) != len(b):
            return (path, "list length %d vs %d" % (len(a), len(b)))
        for i, (x, y) in enumerate(zip(a, b)):
            d = tree_diff(x, y, path + (i,))
            if d:
                return d
        return None
    if type(a) is not type(b) or a != b:
        return (path, "%r vs %r" % (a, b))
    return None


def uncanon(v):
    """codec canonical value -> plain python (floats back to float) for diffing/reporting."""
    if isinstance(v, tuple) and v and v[0] == "float":
        return float("%de%d" % (v[1], v[2]))
    if isinstance(v, tuple) and v and v[0] == "dict":
        return {k: uncanon(x) for k, x in v[2]}
    if isinstance(v, list):
        return [uncanon(x) for x in v]
    return v


# ------------------------------------------------------------------ O-ver + export hunter
def run_over(ctx, raw, vers):
    names = vc.schema_names()
    extra = [0.0, 0, 8, 7, 7.6 - 0.1, 8.2 + 0.1, 1000.0, 1000.5, -1.0]
    cases = [(v, "map") for v in vers + extra]
    for n in names:
        if n == "map":
            continue
        vs = vers if not ctx.quick() else [None] + ctx.rng.sample(vers[1:], 3)
        cases += [(v, n) for v in vs]
    cases.append((7.6, "nosuchschema"))
    outs = vc.model_versioned(cases)
    n_bad = 0
    spec_bad = 0
    for (v, n), m in zip(cases, outs):
        r = vc.real_versioned(v, n)
        ctx.note_case(("over", n, repr(v)), nontrivial=(v is not None and r[0] == "ok"))
        if r != m:
            n_bad += 1
            what = "exception/ok mismatch %s vs %s" % (r[0:1] + r[1:2] if r[0] != "ok" else "ok", m[0:2] if m[0] != "ok" else "ok")
            if r[0] == "ok" and m[0] == "ok":
                what = "trees differ at %s" % (tree_diff(uncanon(r[1]), uncanon(m[1])),)
            ctx.violation("correspondence:O-ver", "model and real get_versioned_schema(%r, %r) disagree: %s" % (v, n, what),
                          {"version": v, "schema_name": n}, no_input=True)
        # hunter: the exported schema is the declaratively pruned one (root map is the property's observation point)
        if n == "map" and r[0] == "ok" and (not v or 0 <= v <= 1000):
            want = vg.spec_prune(raw, raw["map.json"], v if v else None)
            d = tree_diff(uncanon(r[1]), json.loads(json.dumps(want)))
            if d:
                spec_bad += 1
                kw = "/".join(str(x) for x in d[0] if not isinstance(x, int) and x not in ("properties", "items"))
                ctx.violation("export:%s" % kw, "get_versioned_schema(%r) differs from the schema with every out-of-range annotated entry removed, at %s: %s"
                              % (v, "/".join(map(str, d[0])), d[1]), {"kind": "export", "version": v})
    ctx.obligation("correspondence O-ver (extracted get_versioned_schema = real, walked tree)", n_bad == 0, "%d cases, %d disagreements" % (len(cases), n_bad))
    ctx.count("over_cases", len(cases))
    ctx.count("export_vs_declarative_pruning_mismatches", spec_bad)
    return len(cases)


# ------------------------------------------------------------------ str(version)
def run_vstr(ctx, vers):
    vals = [v for v in vers if v is not None] + [0, 2, 8, -3, 10 ** 15, 7.6 - 0.1, 0.1 + 0.2, 1e16, 1e15, 123456789.125, 1e22, 1e-5, 0.0001,
                                                 0.00012345, -7.6, 1000.0, 5e-324 * 0 + 2.5e-7, 1.5e300, 99999999999999.98, 0.0]
    outs = run_model("validator", [(74, vc.enc_ver(v)[1:]) for v in vals])
    bad = 0
    for v, o in zip(vals, outs):
        s = codec.Reader(o).str()
        if s != str(v):
            bad += 1
            ctx.violation("correspondence:vnum_str", "str(%r) = %r, model %r" % (v, str(v), s), {"value": repr(v)}, no_input=True)
    ctx.obligation("correspondence str(version) (cache key suffix)", bad == 0, "%d values" % len(vals))


# ------------------------------------------------------------------ entries x contexts x versions
def entry_cases(raw, gen):
    """[(entry id, file, path, node, ctx, doc, used annotated nodes)]"""
    ctxs = vg.block_contexts(raw)
    out = []
    skipped = []
    for fn, path, node in vg.annotated_entries(raw):
        if fn not in ctxs:
            skipped.append((fn, path))
            continue
        for ctx in ctxs[fn]:
            try:
                if path == ():
                    # the object itself is annotated: an empty object of this file in its context
                    doc, used = vg.build_in_context(raw, ctx, fn, lambda o: None)
                    used = used[:-1] if used and used[-1] is node else used
                elif len(path) == 2 and path[0] == "properties":
                    val = gen.minimal(node)
                    doc, used = vg.build_in_context(raw, ctx, fn, lambda o: o.__setitem__(path[1], copy.deepcopy(val)))
                elif len(path) == 4 and path[0] == "properties" and path[2] in ("oneOf", "anyOf"):
                    val = gen.minimal(node)
                    doc, used = vg.build_in_context(raw, ctx, fn, lambda o: o.__setitem__(path[1], copy.deepcopy(val)))
                    used = used + [raw[fn]["properties"][path[1]]]
                else:
                    skipped.append((fn, path))
                    break
            except vg.GenFail:
                skipped.append((fn, path))
                break
            eid = "%s:%s" % (fn, "/".join(map(str, path)))
            out.append((eid, fn, path, node, ctx, doc, used))
    return out, skipped


def entry_versions(node):
    lo, hi = vg.annotation(node)
    vs = [None]
    for b in ([lo] if "minVersion" in node["metadata"] else []) + ([hi] if "maxVersion" in node["metadata"] else []):
        vs += [round(b - 0.1, 1), b, round(b + 0.1, 1)]
    return vs


def run_entries(ctx, raw, gen):
    from mappyfile.validator import Validator
    spec = vg.Spec(raw)
    pruned = {}

    def oracle(doc, v):
        key = v if v else None
        if key not in pruned:
            pruned[key] = vg.spec_prune(raw, raw["map.json"], key)
        return spec.conforms(pruned[key], vg.lower_json(doc))

    cases, skipped = entry_cases(raw, gen)
    calls = []
    for eid, fn, path, node, cx, doc, used in cases:
        for v in entry_versions(node):
            calls.append((eid, node, cx, doc, used, v))
    ctx.rng.shuffle(calls)
    shared = Validator()
    n_bad = n_crisp = n_exc = 0
    verdicts = {}
    for i, (eid, node, cx, doc, used, v) in enumerate(calls):
        want = oracle(doc, v)
        crisp = v is None or all(vg.in_range(n, v) for n in used + [node])
        try:
            got = shared.validate(copy.deepcopy(doc), version=v) == []
        except Exception as ex:  # noqa
            got = False
            n_exc += 1
        verdicts[i] = got
        n_crisp += 1 if crisp == want else 0
        ctx.note_case(("entry", eid, repr([(k, l) for k, l, _ in cx]), repr(v)), nontrivial=v is not None)
        if got != want:
            n_bad += 1
            ctx.violation("version:%s" % eid,
                          "entry %s in context %s at version %r: validate %s the minimal document, the schema pruned by minVersion/maxVersion %s it (entry range %s)"
                          % (eid, [k for k, _, _ in cx], v, "accepts" if got else "rejects", "accepts" if want else "rejects", vg.annotation(node)),
                          {"kind": "entry", "doc": json.loads(json.dumps(doc)), "version": v, "expected_accept": want, "entry": eid})
    # history independence: the same questions on fresh Validators
    n_fresh = ctx.budget(120, len(calls))
    idx = ctx.rng.sample(range(len(calls)), min(n_fresh, len(calls)))
    n_hist_bad = 0
    for i in idx:
        eid, node, cx, doc, used, v = calls[i]
        try:
            got = Validator().validate(copy.deepcopy(doc), version=v) == []
        except Exception:  # noqa
            got = False
        if got != verdicts[i]:
            n_hist_bad += 1
            ctx.violation("history:entry:%s" % eid, "verdict for %s at version %r on a Validator that answered other versions before differs from a fresh Validator" % (eid, v),
                          {"kind": "entry", "doc": json.loads(json.dumps(doc)), "version": v, "expected_accept": got, "entry": eid})
    ctx.count("annotated_entries", len({c[0] for c in cases}))
    ctx.count("entry_context_pairs", len(cases))
    ctx.count("entry_calls_on_shared_validator", len(calls))
    ctx.count("entry_calls_crisp_in_range_iff_accepted", n_crisp)
    ctx.count("entry_calls_repeated_on_fresh_validators", len(idx))
    ctx.count("entry_calls_raising", n_exc)
    ctx.coverage["entries_skipped"] = ["%s:%s" % (f, "/".join(map(str, p))) for f, p in skipped]
    if calls:
        eid, node, cx, doc, used, v = calls[0]
        ctx.sample({"entry": eid, "context": [k for k, _, _ in cx], "version": v, "doc": json.loads(json.dumps(doc))})
    return len(calls)


# ------------------------------------------------------------------ O-val at versions
def run_oval(ctx, raw, gen, vers):
    spec = vg.Spec(raw)
    n = ctx.budget(120, 2500)
    cases = []
    for i in range(n):
        gv = ctx.rng.choice(vers)
        try:
            d = gen.document(version=gv if ctx.rng.random() < 0.6 else None)
        except vg.GenFail:
            continue
        v = gv if ctx.rng.random() < 0.7 else ctx.rng.choice(vers)
        cases.append((d, "map", v))
    outs = vc.model_validate(cases)
    bad = hbad = 0
    pruned = {}
    for (d, nme, v), m in zip(cases, outs):
        r = vc.canon_msgs(vc.real_validate(d, nme, v))
        ctx.note_case(("oval", repr(v), json.dumps(d, default=str)), nontrivial=v is not None)
        if r != vc.canon_msgs(m):
            bad += 1
            ctx.violation("correspondence:O-val", "model and real validate(version=%r) disagree: real %s model %s" % (v, str(r)[:300], str(m)[:300]),
                          {"kind": "doc", "doc": json.loads(json.dumps(d)), "version": v}, no_input=True)
        if r[0] == "ok":
            key = v if v else None
            if key not in pruned:
                pruned[key] = vg.spec_prune(raw, raw["map.json"], key)
            want = spec.conforms(pruned[key], vg.lower_json(d))
            if want != (r[1] == []):
                hbad += 1
                kws = sorted({str(p[-1]) if p else "root" for p, *_ in r[1]}) if r[1] else []
                ctx.violation("version:doc:%s" % (",".join(kws[:2]) or "accepted"),
                              "generated document at version %r: validate %s, pruned schema %s" % (v, "accepts" if r[1] == [] else "rejects", "accepts" if want else "rejects"),
                              {"kind": "doc", "doc": json.loads(json.dumps(d)), "version": v, "expected_accept": want})
    ctx.obligation("correspondence O-val at versions (messages: path, validator keyword, message, position)", bad == 0, "%d documents, %d disagreements" % (len(cases), bad))
    ctx.count("oval_documents", len(cases))
    return len(cases)


# ------------------------------------------------------------------ O-hist
HNAMES = ["map", "layer", "class", "style", "label", "web", "symbol", "hex", "hex2", "connectionoptions", "nosuch"]
HVERS = [None, None, 0.0, 2, 5.0, 7.6, 7.6, 8.0, 8, 8.2, 4.9]


def small_docs(raw, gen):
    docs = []
    for fn, fill in (("map.json", lambda o: o.__setitem__("datapattern", "x")),
                     ("map.json", lambda o: o.__setitem__("scaledenom", 5)),
                     ("map.json", lambda o: o.__setitem__("nosuchkeyword", 1)),
                     ("map.json", lambda o: None)):
        d = vg.new_obj(raw, fn)
        fill(d)
        docs.append(d)
    d = vg.new_obj(raw, "map.json")
    lay = vg.new_obj(raw, "layer.json")
    lay["opacity"] = 50
    lay["utfitem"] = "x"
    d["layers"] = [lay]
    docs.append(d)
    return docs


def cache_key(name, v):
    return name + (str(v) if v is not None else "")


def gen_history(rng, docs):
    ops = []
    for _ in range(rng.randint(3, 10)):
        k = rng.choice(["validate", "validate", "versioned", "versioned", "expanded"])
        name = rng.choice(HNAMES) if rng.random() < 0.75 else "map"
        v = rng.choice(HVERS)
        if k == "validate":
            name = "map" if rng.random() < 0.8 else name
            ops.append(("validate", rng.randrange(len(docs)), name, v))
        else:
            ops.append((k, name, v))
    return ops


def enc_history(ops, docs):
    t = [len(ops)]
    for o in ops:
        if o[0] == "validate":
            t += [0] + codec.enc_value(docs[o[1]]) + vc.enc_name_ver(o[2], o[3])
        elif o[0] == "versioned":
            t += [1] + vc.enc_name_ver(o[1], o[2])
        else:
            t += [2] + vc.enc_name_ver(o[1], o[2])
    return t


def dec_history(toks, n):
    out = []
    i = 0
    for _ in range(n):
        ln = toks[i]
        chunk = toks[i + 1:i + 1 + ln]
        i += 1 + ln
        out.append(chunk)
    return out


def real_op(o, docs, val):
    if o[0] == "validate":
        return vc.canon_msgs(vc.real_validate(docs[o[1]], o[2], o[3], validator=val))
    if o[0] == "versioned":
        r = vc.real_versioned(o[2], o[1], validator=val)
    else:
        r = vc.real_expanded(o[1], o[2], val)
    if r[0] == "ok":
        return ("ok", vc.digest(enc_canon(r[1])))
    return r


def enc_canon(v):
    """codec.enc_value of a canonical value (as produced by codec.canon)."""
    if isinstance(v, tuple) and v[0] == "float":
        return [3, v[1], v[2]]
    if isinstance(v, tuple) and v[0] == "dict":
        out = [6, v[1], len(v[2])]
        for k, x in v[2]:
            out += codec.enc_str(k) + enc_canon(x)
        return out
    if isinstance(v, list):
        out = [5, len(v)]
        for x in v:
            out += enc_canon(x)
        return out
    return codec.enc_value(v)


def model_op(o, chunk):
    if o[0] == "validate":
        return vc.canon_msgs(vc.dec_msgs(chunk))
    if chunk[0] == 0:
        return ("ok", chunk[1])
    return ("exc", vc.EXN_NAME.get(chunk[1], "code"))


FRESH = {}


def fresh_answer(o, docs):
    """the answer of a brand-new Validator (deterministic, so memoised per call)."""
    k = repr(o)
    if k not in FRESH:
        FRESH[k] = real_op(o, docs, vc.recording_validator())
    return FRESH[k]


def history_outcome(ops, docs):
    """(answers on one Validator, answers on fresh Validators)"""
    val = vc.recording_validator()
    one = [real_op(o, docs, val) for o in ops]
    fresh = [fresh_answer(o, docs) for o in ops]
    return one, fresh


def first_history_violation(ops, docs):
    """index of the first observed answer (validate / get_versioned_schema / get_expanded_schema without
    version) on the shared Validator that differs from a fresh Validator's, else None."""
    one, fresh = history_outcome(ops, docs)
    for i, o in enumerate(ops):
        if o[0] == "expanded" and o[2] is not None:
            continue      # not an observation point of the property: returns the per-version cache object itself
        if one[i] != fresh[i]:
            return i
    return None


def run_ohist(ctx, raw, gen):
    from checklib.shrink import shrink_list
    docs = small_docs(raw, gen)
    hs = [[("versioned", "hex", 2), ("versioned", "hex2", None)],
          [("versioned", "map", 7.6), ("validate", 0, "map", 8.0), ("validate", 0, "map", 7.6), ("versioned", "map", None), ("validate", 0, "map", None)],
          [("expanded", "map", 8.0), ("versioned", "map", 8.0), ("expanded", "map", 8.0), ("versioned", "map", 8.0)]]
    for _ in range(ctx.budget(40, 600)):
        hs.append(gen_history(ctx.rng, docs))
    outs = run_model("validator", [(72, enc_history(h, docs)) for h in hs])
    bad = 0
    for h, o in zip(hs, outs):
        one, fresh = history_outcome(h, docs)
        mod = [model_op(op, ch) for op, ch in zip(h, dec_history(o, len(h)))]
        ctx.note_case(("hist", repr(h)), nontrivial=len({repr(op[-1]) for op in h}) >= 2)
        if mod != one:
            bad += 1
            k = next(i for i in range(len(h)) if mod[i] != one[i])
            ctx.violation("correspondence:O-hist", "model state machine and one real Validator disagree at step %d of %r: real %s model %s"
                          % (k, h, str(one[k])[:200], str(mod[k])[:200]), {"kind": "history", "ops": h}, no_input=True)
        k = first_history_violation(h, docs)
        if k is not None:
            small = shrink_list(h, lambda sub: first_history_violation(sub, docs) is not None)
            k2 = first_history_violation(small, docs)
            op = small[k2]
            name, v = (op[2], op[3]) if op[0] == "validate" else (op[1], op[2])
            collide = any(cache_key(*((p[2], p[3]) if p[0] == "validate" else (p[1], p[2]))) == cache_key(name, v)
                          and ((p[2], p[3]) if p[0] == "validate" else (p[1], p[2])) != (name, v) for p in small[:k2])
            fp = "cache:key-collision" if collide else "history:%s" % op[0]
            ctx.violation(fp, "after the calls %r on one Validator, %r answers differently from a fresh Validator" % (small[:k2], op),
                          {"kind": "history", "ops": small})
    ctx.obligation("correspondence O-hist (model state machine = one real Validator on every history)", bad == 0, "%d histories, %d disagreements" % (len(hs), bad))
    ctx.count("histories", len(hs))
    ctx.count("traces_validated_against_impl", len(hs))
    ctx.sample({"history": [list(map(str, o)) for o in hs[-1]]})
    return len(hs)


def run(ctx):
    raw = vc.raw_schemas()
    gen = vg.Gen(raw, ctx.rng)
    vers = boundary_versions(raw)
    ctx.coverage["bounds"] = vg.all_bounds(raw)
    import time
    T = {}
    t0 = time.time()
    n_entries = run_entries(ctx, raw, gen)          # hunter first: it needs no model
    T["entries"] = time.time() - t0
    if ctx.model_ok:
        for nm, f in (("over", lambda: run_over(ctx, raw, vers)), ("vstr", lambda: run_vstr(ctx, vers)),
                      ("oval", lambda: run_oval(ctx, raw, gen, vers)), ("ohist", lambda: run_ohist(ctx, raw, gen))):
            t0 = time.time()
            f()
            T[nm] = round(time.time() - t0, 2)
        ctx.coverage["section_seconds"] = T
    else:
        # model unavailable: hunters only
        for v in vers:
            r = vc.real_versioned(v, "map")
            if r[0] == "ok":
                d = tree_diff(uncanon(r[1]), json.loads(json.dumps(vg.spec_prune(raw, raw["map.json"], v))))
                if d:
                    ctx.violation("export:%s" % "/".join(str(x) for x in d[0] if not isinstance(x, int) and x not in ("properties", "items")),
                                  "get_versioned_schema(%r) differs from the declaratively pruned schema at %s" % (v, d[0]), {"kind": "export", "version": v})
        docs = small_docs(raw, gen)
        for _ in range(ctx.budget(40, 600)):
            h = gen_history(ctx.rng, docs)
            if first_history_violation(h, docs) is not None:
                ctx.violation("history:any", "history %r answers differently from fresh Validators" % (h,), {"kind": "history", "ops": h})
    ctx.count("entry_calls", n_entries)


def replay(ctx, body):
    r = body["replay"]
    raw = vc.raw_schemas()
    kind = r.get("kind")
    if kind in ("entry", "doc"):
        from mappyfile.validator import Validator
        spec = vg.Spec(raw)
        v = r["version"]
        want = spec.conforms(vg.spec_prune(raw, raw["map.json"], v if v else None), vg.lower_json(r["doc"]))
        try:
            got = Validator().validate(copy.deepcopy(r["doc"]), version=v) == []
        except Exception as ex:  # noqa
            got = "raised %s" % type(ex).__name__
        print("replay: validate(version=%r) accepts=%s, schema pruned by minVersion/maxVersion accepts=%s" % (v, got, want))
        return 0 if got == want else 1
    if kind == "history":
        ops = [tuple(o) for o in r["ops"]]
        gen = vg.Gen(raw, ctx.rng)
        docs = small_docs(raw, gen)
        k = first_history_violation(ops, docs)
        print("replay: history %r -> %s" % (ops, "step %d differs from a fresh Validator" % k if k is not None else "agrees with fresh Validators"))
        return 1 if k is not None else 0
    if kind == "export":
        v = r["version"]
        real = vc.real_versioned(v, "map")
        d = tree_diff(uncanon(real[1]), json.loads(json.dumps(vg.spec_prune(raw, raw["map.json"], v if v else None)))) if real[0] == "ok" else ("raised", real[1])
        print("replay: export at %r -> %s" % (v, d or "equal to the declaratively pruned schema"))
        return 1 if d else 0
    print("replay: nothing to replay for", body.get("fingerprint"))
    return 1
