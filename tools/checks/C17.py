"""C17: correspondence O-od (model vs real CaseInsensitiveOrderedDict) and the
property hunter (real dict vs an ordinary ordered dict keyed by lower-cased
keys, copy/deepcopy/pickle clauses, deepcopy aliasing)."""
import copy, pickle, itertools
from collections import OrderedDict
from checklib import codec
from checklib.model import run_model
from checklib.shrink import shrink_list

MANIFEST = dict(
        technique="Coq refinement proof (induction over operation sequences) + extracted-model correspondence",
        text=("Coq theorems (Props/C17.v): for every operation sequence, from every dictionary satisfying the representation invariant and both factory settings, "
              "the method-by-method model of CaseInsensitiveOrderedDict yields the outputs and items() of a plain ordered dict keyed by str.lower-ed keys "
              "(refinement by induction over the op list; lower-idempotence discharged by reflection over the generated Unicode table); invariants keys-lower/no-duplicates; "
              "construction, missing-list-key, copy/deepcopy/pickle clauses. The model is tied to ordereddict.py by running the extracted model and the real class "
              "on all op sequences up to length 2 (3 in thorough) over a 6-key mixed-case alphabet plus random histories, comparing every output and items() after every step. "
              "Deepcopy aliasing is only exercised by the hunter (value-level model)."),
        design_ref="DESIGN.md 7/C17",
        note="C17: collections.OrderedDict and pickle/copy protocols are modelled (Lib/PyDict.v, Model/OrderedDict.v); U+03A3 final-sigma excluded from str.lower's model.")

COMPONENTS = ["dicts"]          # extracted components this check runs (ocaml/<name>/driver)
TARGETS = []                    # extra coq make targets besides Props/C17.vo
RULE = ("all op sequences up to length 2 (3 in thorough, triples sampled at 12%) over 6 mixed-case keys x both factory settings x 2 initial dicts, "
        "plus random histories of length < 40 over a wider alphabet incl. non-ASCII keys; non-trivial = at least two operations; distinct by repr of (factory, init, ops)")

KEYS = ["a", "A", "b", "B", "layers", "LAYERS"]
EXTRA_KEYS = ["Name", "NAME", "classes", "Classes", "Été", "éTÉ", "straße", "STRASSE",
              "İx", "i̇x", "Ω", "ω", "__type__", "__TYPE__", ""]


def mk_values():
    from mappyfile.ordereddict import CaseInsensitiveOrderedDict as CI
    return [lambda: 1, lambda: "x", lambda: None, lambda: [1, "y"], lambda: True, lambda: 2.5,
            lambda: CI(CI, [("K", 1)]), lambda: {"p": [1]}]


def gen_ops(rng, n, keys, values):
    ops = []
    for _ in range(n):
        t = rng.choice([0, 0, 1, 1, 1, 2, 3, 4, 5, 6, 6, 7, 8, 9, 10, 11, 12, 13, 14, 15, 15])
        k = rng.choice(keys)
        v = rng.choice(values)()
        if t in (0, 2, 3, 4, 14):
            ops.append((t, k))
        elif t in (1, 5, 7):
            ops.append((t, k, v))
        elif t == 6:
            ops.append((t, k, None if rng.random() < 0.5 else ("some", v)))
        elif t in (8, 9):
            m = rng.randrange(0, 4)
            ks = keys if t == 8 else [x for x in keys if x.isidentifier()]
            pairs = [(rng.choice(ks), rng.choice(values)()) for _ in range(m)]
            if t == 9:
                pairs = list(OrderedDict(pairs).items())
            ops.append((t, pairs))
        elif t == 15:
            idk = [x for x in keys if x.isidentifier()]
            pairs = [(rng.choice(keys), rng.choice(values)()) for _ in range(rng.randrange(0, 3))]
            kw = list(OrderedDict((rng.choice(idk), rng.choice(values)()) for _ in range(rng.randrange(1, 3))).items())
            ops.append((t, pairs, kw))
        else:
            ops.append((t,))
    return ops


def enc_op(o):
    t = o[0]
    if t in (0, 2, 3, 4, 14):
        return [t] + codec.enc_str(o[1])
    if t in (1, 5, 7):
        return [t] + codec.enc_str(o[1]) + codec.enc_value(o[2])
    if t == 6:
        return [t] + codec.enc_str(o[1]) + ([0] if o[2] is None else [1] + codec.enc_value(o[2][1]))
    if t in (8, 9):
        return [t] + codec.enc_items(o[1])
    if t == 15:
        return [t] + codec.enc_items(o[1]) + codec.enc_items(o[2])
    return [t]


def enc_case(factory, init, ops):
    out = [1 if factory else 0] + codec.enc_items(init) + [len(ops)]
    for o in ops:
        out += enc_op(o)
    return out


def same_copy(c, d):
    return (type(c) is type(d) and c.default_factory is d.default_factory
            and c == d and list(c.items()) == list(d.items()))


def impl_trace(factory, init, ops):
    """Run on the real class; returns [("init", items)] + [(out, items)] canonical."""
    from mappyfile.ordereddict import CaseInsensitiveOrderedDict as CI
    d = CI(CI if factory else None, copy.deepcopy(init))
    tr = [("init", codec.canon(OrderedDict(d.items()))[2])]
    for o in ops:
        o = copy.deepcopy(o)
        t = o[0]
        try:
            if t == 0:
                r = ("v", codec.canon(d[o[1]]))
            elif t == 1:
                d[o[1]] = o[2]; r = ("none",)
            elif t == 2:
                del d[o[1]]; r = ("none",)
            elif t == 3:
                r = ("b", o[1] in d)
            elif t == 4:
                r = ("b", d.has_key(o[1]))
            elif t == 5:
                r = ("v", codec.canon(d.get(o[1], o[2])))
            elif t == 6:
                r = ("v", codec.canon(d.pop(o[1]) if o[2] is None else d.pop(o[1], o[2][1])))
            elif t == 7:
                r = ("v", codec.canon(d.setdefault(o[1], o[2])))
            elif t == 8:
                d.update(o[1]); r = ("none",)
            elif t == 9:
                d.update(**dict(o[1])); r = ("none",)
            elif t == 15:
                d.update(o[1], **dict(o[2])); r = ("none",)
            elif t == 10:
                c = type(d)(d.default_factory, list(d.items())); r = ("b", same_copy(c, d)); d = c
            elif t == 11:
                c = d.copy(); r = ("b", same_copy(c, d)); d = c
            elif t == 12:
                c = copy.deepcopy(d); r = ("b", same_copy(c, d)); d = c
            elif t == 13:
                c = pickle.loads(pickle.dumps(d)); r = ("b", same_copy(c, d)); d = c
            elif t == 14:
                d.move_to_end(o[1]); r = ("none",)
        except KeyError:
            r = ("keyerror",)
        except Exception as ex:  # any other exception is itself a deviation
            r = ("exc", type(ex).__name__)
        tr.append((r, codec.canon(OrderedDict(d.items()))[2]))
    return tr


def model_trace(toks):
    rd = codec.Reader(toks)
    st = rd.z()
    if st != 0:
        return [("modelerr", list(toks))]
    tr = [("init", rd.items())]
    while not rd.done():
        tag = rd.z()
        if tag == 0:
            r = ("v", rd.value())
        elif tag == 1:
            r = ("b", rd.z() != 0)
        elif tag == 2:
            r = ("none",)
        else:
            r = ("keyerror",)
        tr.append((r, rd.items()))
    return tr


# ---------------------------------------------------------------- reference
def ref_trace(factory, init, ops):
    """The property's own oracle: an ordinary OrderedDict keyed by lower-cased keys."""
    from mappyfile.tokens import OBJECT_LIST_KEYS
    CI3 = ("dict", 3, [])
    m = OrderedDict()
    for k, v in init:
        m[k.lower()] = codec.canon(v)
    tr = [("init", list(m.items()))]
    for o in ops:
        t = o[0]
        r = ("none",)
        if t == 0:
            k = o[1].lower()
            if k in m:
                r = ("v", m[k])
            elif factory:
                m[k] = [] if k in OBJECT_LIST_KEYS else CI3
                r = ("v", m[k])
            else:
                r = ("keyerror",)
        elif t == 1:
            m[o[1].lower()] = codec.canon(o[2])
        elif t == 2:
            if o[1].lower() in m:
                del m[o[1].lower()]
            else:
                r = ("keyerror",)
        elif t in (3, 4):
            r = ("b", o[1].lower() in m)
        elif t == 5:
            r = ("v", m.get(o[1].lower(), codec.canon(o[2])))
        elif t == 6:
            k = o[1].lower()
            if k in m:
                r = ("v", m.pop(k))
            elif o[2] is not None:
                r = ("v", codec.canon(o[2][1]))
            else:
                r = ("keyerror",)
        elif t == 7:
            k = o[1].lower()
            if k not in m:
                m[k] = codec.canon(o[2])
            r = ("v", m[k])
        elif t in (8, 9):
            for k, v in o[1]:
                m[k.lower()] = codec.canon(v)
        elif t == 15:
            for k, v in list(o[1]) + list(o[2]):        # an ordinary dict applies the positional pairs, then the keywords
                m[k.lower()] = codec.canon(v)
        elif t in (10, 11, 12, 13):
            r = ("b", True)
        elif t == 14:
            if o[1] in m:
                m.move_to_end(o[1])
            else:
                r = ("keyerror",)
        tr.append((r, list(m.items())))
    return tr


def mutable_ids(x, acc):
    """ids of every list / dict reachable from x"""
    if isinstance(x, (list, dict)):
        if id(x) in acc:
            return acc
        acc[id(x)] = x
        for y in (x.values() if isinstance(x, dict) else x):
            mutable_ids(y, acc)
    return acc


def deepcopy_shares(factory, init, reads=()):
    """True if a deepcopy shares a mutable value (at any depth, empty containers included) with the
    original, or if mutating the copy changes the original.  [reads]: keys read before copying, so that
    the default factory has stored its fresh [] / {} values."""
    from mappyfile.ordereddict import CaseInsensitiveOrderedDict as CI
    d = CI(CI if factory else None, copy.deepcopy(init))
    for k in reads:
        try:
            d[k]
        except KeyError:
            pass
    before = repr(list(d.items()))
    c = copy.deepcopy(d)
    shared = set(mutable_ids(d, {})) & set(mutable_ids(c, {}))
    for k in list(c.keys()):
        v = c[k]
        if isinstance(v, list):
            v.append("MUT")
        elif isinstance(v, dict):
            v["mut"] = 1
    return bool(shared) or repr(list(d.items())) != before


def first_diff(a, b):
    for i, (x, y) in enumerate(zip(a, b)):
        if x != y:
            return i, x, y
    if len(a) != len(b):
        return min(len(a), len(b)), None, None
    return None


def run(ctx):
    rng = ctx.rng
    values = mk_values()
    cases = []
    # regression corpus first
    import json, os
    cpath = os.path.join(os.path.dirname(os.path.dirname(os.path.dirname(os.path.abspath(__file__)))), "corpus", "C17.json")
    if os.path.exists(cpath):
        for c in json.load(open(cpath)):
            cases.append((c["factory"], [tuple(x) for x in c["init"]], [tuple(o) for o in c["ops"]]))
    # exhaustive small scope: all sequences of length <= L over the 6-key alphabet
    L = ctx.budget(2, 3)
    atoms = []
    for k in KEYS:
        atoms += [(0, k), (1, k, 1), (1, k, [7]), (2, k), (3, k), (5, k, 9), (6, k, None), (6, k, ("some", 0)), (7, k, 5), (14, k)]
    atoms += [(8, [("A", 1), ("b", 2), ("a", 3)]), (8, []), (9, [("B", 4)]), (10,), (11,), (12,), (13,),
              (15, [("A", 1), ("layers", 2)], [("a", 3), ("B", 4)]), (15, [("B", 1)], [("A", 2)])]
    inits = [[], [("A", 0), ("layers", [1])]]
    n_exh = 0
    for n in range(1, L + 1):
        for seq in itertools.product(atoms, repeat=n):
            if n == 3 and rng.random() > 0.12:
                continue  # thorough: 12% sample of the 300k triples, pairs are complete
            for f in (True, False):
                for init in inits:
                    cases.append((f, init, list(seq)))
                    n_exh += 1
    # random longer histories, wider key alphabet
    n_rand = ctx.budget(1500, 20000)
    for _ in range(n_rand):
        keys = KEYS + (EXTRA_KEYS if rng.random() < 0.5 else [])
        init = [(rng.choice(keys), rng.choice(values)()) for _ in range(rng.randrange(0, 4))]
        cases.append((rng.random() < 0.6, init, gen_ops(rng, rng.randrange(1, 40), keys, values)))
    ctx.count("exhaustive_cases", n_exh)
    ctx.count("random_cases", n_rand)

    toks = [(17, enc_case(f, init, ops)) for f, init, ops in cases]
    outs = run_model("dicts", toks)
    n_corr_bad = 0
    op_hist = {}
    for (f, init, ops), mt in zip(cases, outs):
        it = impl_trace(f, init, ops)
        mtr = model_trace(mt)
        rt = ref_trace(f, init, ops)
        for o in ops:
            op_hist[o[0]] = op_hist.get(o[0], 0) + 1
        ctx.note_case(repr((f, init, ops)), nontrivial=len(ops) >= 2)
        d_im = first_diff(it, mtr)
        d_ir = first_diff(it, rt)
        if d_im is not None:
            n_corr_bad += 1
        if d_ir is not None or d_im is not None:
            def fails(sub):
                a = impl_trace(f, init, sub)
                return first_diff(a, ref_trace(f, init, sub)) is not None
            small = shrink_list(ops, fails) if d_ir is not None else ops
            a = impl_trace(f, init, small); b = ref_trace(f, init, small)
            dd = first_diff(a, b)
            if d_ir is not None:
                last = small[-1] if small else None
                fp = "dict-op:%s" % (last[0] if last else "init")
                ctx.violation(fp, "real dict deviates from an ordered dict keyed by lower-cased keys at step %s: got %r, reference %r"
                              % (dd[0] if dd else "?", dd[1] if dd else None, dd[2] if dd else None),
                              {"factory": f, "init": init, "ops": small, "impl": repr(a), "reference": repr(b)})
            else:
                ctx.violation("correspondence:O-od", "model and implementation disagree at step %d (implementation still matches the reference here)" % d_im[0],
                              {"factory": f, "init": init, "ops": ops, "impl": repr(it), "model": repr(mtr)}, no_input=True)
    ctx.obligation("correspondence O-od (model trace = implementation trace on every case)", n_corr_bad == 0,
                   "%d cases, %d disagreements" % (len(cases), n_corr_bad))
    ctx.count("traces_validated_against_impl", len(cases))
    ctx.coverage["op_histogram"] = {str(k): v for k, v in sorted(op_hist.items())}
    # deepcopy aliasing (hunter only; the value-level model cannot express sharing)
    n_alias = 0
    alias_inits = [[("a", [1]), ("b", {"x": [2]})], [("layers", [{"n": 1}])], [("layers", []), ("web", {}), ("name", "")],
                   [("a", [[]]), ("b", {"x": {}}), ("c", 0), ("d", None), ("e", False)], [], [("classes", [{"styles": []}])]]
    for init in alias_inits:
        for f in (True, False):
            for reads in ((), ("layers", "web", "zz")):
                n_alias += 1
                if deepcopy_shares(f, init, reads):
                    ctx.violation("deepcopy-shares", "deepcopy shares mutable state with the original", {"factory": f, "init": init, "reads": list(reads)})
    for _ in range(ctx.budget(60, 1000)):
        f, init, ops = rng.choice(cases)
        reads = [o[1] for o in ops if o[0] == 0][:3]
        n_alias += 1
        if deepcopy_shares(f, init, reads):
            ctx.violation("deepcopy-shares", "deepcopy shares mutable state with the original", {"factory": f, "init": init, "reads": reads})
    ctx.count("deepcopy_alias_checks", n_alias)
    ctx.sample({"factory": cases[-1][0], "init": repr(cases[-1][1]), "ops": repr(cases[-1][2][:8])})
    ctx.sample({"exhaustive_atom_alphabet": len(atoms), "max_exhaustive_length": L})


def replay(ctx, body):
    r = body["replay"]
    init = [tuple(x) for x in r["init"]]
    ops = [tuple(tuple(y) if isinstance(y, list) and y and y[0] == "some" else y for y in o) for o in r["ops"]]
    a = impl_trace(r["factory"], init, ops); b = ref_trace(r["factory"], init, ops)
    d = first_diff(a, b)
    print("replay: implementation vs reference:", "DIFFER at step %s" % (d[0],) if d else "agree")
    return 1 if d else 0
