"""C01: parse -> pretty-print -> parse preserves Mapfile content.

Runner: extracted printer model vs real PrettyPrinter on the dictionaries the
real loads produced (O-lines), plus the parser correspondence on the printed
texts (O-dict).  Hunter: loads(dumps(loads t)) ~ loads t and the printed text is
accepted, on corpus files and generated documents."""
from checklib import codec
from gens import docs, sweep, harness, rt

MANIFEST = dict(
    technique="kernel-checked exhaustive evaluation (vm_compute) of the parse-print-parse round trip on the slot product through the composed Coq models (parser + printer) + extracted-model correspondence at both stages",
    text=("Coq (Props/C01.v): for every root-level document of the schema-generated slot product the composed model - lexer, LR driver, transformer, then the printer with its schema lookups, then lexer/LR/transformer again - "
          "accepts its own output and returns an approximately equal dictionary (only the two allowed differences), except an explicit list of (type, keyword, alternative) triples, all of them keywords whose schema is wrapped in allOf "
          "(known finding); evaluated by the kernel, re-proved whenever grammar, tables or schemas change. PARTIAL: for unbounded documents the statement is not a theorem (it needs parser completeness on printer output); "
          "it rests on C03's printer theorems, C02's parser-side theorems, and on running the real loads/dumps/loads on all parseable corpus files and on generated documents, with the extracted printer compared line by line "
          "with the real one on the same dictionaries and the extracted parser compared with the real one on the printed texts."),
    design_ref="DESIGN.md 7/C01",
    note="C01: documented exclusions (string containing the output quote; strings of expression-capable keywords that look like expression/regex/list/binding) are skipped by the hunter, see tools/gens/rt.py.")

COMPONENTS = ["parser", "printer"]
TARGETS = []
RULE = "all parseable corpus files (quick: a sample) and schema-generated documents of depth <= 4; non-trivial = at least 3 keywords; one case = one loads/dumps/loads cycle"


def run(ctx):
    import mappyfile
    from mappyfile.pprint import PrettyPrinter
    rng = ctx.rng
    corp = harness.corpus_files()
    rng.shuffle(corp)
    texts = [(f, t) for f, t in corp[:ctx.budget(80, 451)] if len(t) < ctx.budget(20000, 10**7)]
    for doc in harness.gen_documents(rng, ctx.budget(200, 3000), max_depth=4, contract=True, pool="parseable"):
        texts.append(("generated", docs.render(doc, harness.random_layout(rng))[0]))
    pp = PrettyPrinter()
    printed = []
    loaded = []
    passed = []          # dictionaries whose round trip under the default options holds
    for i, (src, t) in enumerate(texts):
        try:
            d = sweep.fast_loads(t)
        except Exception:
            continue                     # outside the quantifier
        ctx.note_case(t, nontrivial=len(t.split()) > 6)
        if rt.excluded(d):
            ctx.count("excluded_documents")
            continue
        try:
            t2 = mappyfile.dumps(d) if i % 10 == 0 else pp.pprint(d)
        except Exception as ex:
            ctx.violation("dumps-raises:" + type(ex).__name__, "dumps raises %s on a dictionary produced by loads" % type(ex).__name__, {"text": t})
            continue
        loaded.append(d)
        printed.append(t2)
        r = rt.roundtrip_failure(d, sweep.fast_loads, lambda x: t2 if x is d else pp.pprint(x))
        if not r:
            passed.append(d)
        if r:
            kind = r[0]
            small = rt.shrink_dict(d, lambda c: (rt.roundtrip_failure(c, sweep.fast_loads, pp.pprint) or (None,))[0] == kind)
            sym = rt.slot_symptom(small)
            try:
                small_text = pp.pprint(small)
            except Exception:
                small_text = None
            if kind == "rejected":
                ctx.violation("printed-text-rejected:" + sym, "the text written by dumps is rejected by loads (%s); minimal dictionary prints as %r" % (r[1], small_text),
                              {"text": t, "printed": t2, "minimal_printed": small_text})
            else:
                typ, path, a, b = r[1]
                ctx.violation("roundtrip:" + sym, "content changes on parse -> print -> parse at %s/%s: %r became %r; minimal dictionary prints as %r"
                              % (typ, "/".join(map(str, path)), a, b, small_text), {"text": t, "printed": t2, "minimal_printed": small_text})
    # ---- the same cycle with dumps called under non-default (content-preserving) formatting options
    def opt_printer(o):
        return PrettyPrinter(indent=o["indent"], spacer=o["spacer"], quote=o["quote"], newlinechar=o["newlinechar"],
                             end_comment=o["end_comment"], align_values=o["align_values"])
    default = dict(indent=4, spacer=" ", quote='"', newlinechar="\n", end_comment=False, align_values=False)
    n_opt = 0
    for i, d in enumerate(passed):
        if i % 3 != 0 and ctx.tier == "quick":
            continue
        o = dict(indent=rng.choice([0, 1, 2, 3, 4, 8]), spacer=rng.choice([" ", " ", "\t"]), quote=rng.choice(['"', "'"]),
                 newlinechar=rng.choice(["\n", "\r\n"]), end_comment=rng.random() < 0.5, align_values=rng.random() < 0.6)
        if rt.excluded(d, o["quote"]):
            continue
        n_opt += 1

        def fails(oo, dd=d):
            if rt.excluded(dd, oo["quote"]):
                return False
            return rt.roundtrip_failure(dd, sweep.fast_loads, opt_printer(oo).pprint) is not None
        if fails(o):
            blame = next((k for k in sorted(o) if o[k] != default[k] and fails(dict(default, **{k: o[k]}))), "combination")
            oo = dict(default, **{blame: o[blame]}) if blame != "combination" else o
            small = rt.shrink_dict(d, lambda c: not rt.excluded(c, oo["quote"]) and rt.roundtrip_failure(c, sweep.fast_loads, opt_printer(oo).pprint) is not None)
            r = rt.roundtrip_failure(small, sweep.fast_loads, opt_printer(oo).pprint) or ("changed", None, None)
            ctx.violation("roundtrip-under-options:" + blame, "parse -> print -> parse changes content or is rejected when dumps is called with %s=%r (%s); minimal dictionary prints as %r"
                          % (blame, o.get(blame), r[0], r[2]), {"options": oo, "printed": r[2], "dict": repr(small)[:1500]})
    ctx.count("roundtrips_under_options", n_opt)
    # ---- every free-string slot x every awkward string (escaped quotes, blanks, unicode, look-alikes)
    n_str = 0
    for ot in docs.object_types():
        for it in docs.slot_items(ot):
            if it.shape != "string" or it.kind != "attr" or it.repeated or len(it.tokens) != 2:
                continue
            for w in harness.STRING_POOL:
                item = docs.Item(it.key, [it.tokens[0], docs.T("qstr", w)], w, "string")
                text = docs.render(docs.Block(ot, [item], False), docs.Layout())[0]
                try:
                    d = sweep.fast_loads(text)
                except Exception:
                    continue
                if rt.excluded(d):
                    continue
                n_str += 1
                ctx.note_case(("strslot", ot, it.key, w))
                r = rt.roundtrip_failure(d, sweep.fast_loads, pp.pprint)
                if r:
                    sym = rt.slot_symptom(d)
                    what = "rejected" if r[0] == "rejected" else "changed"
                    try:
                        shown = pp.pprint(d)
                    except Exception:
                        shown = None
                    ctx.violation(("printed-text-rejected:" if r[0] == "rejected" else "roundtrip:") + sym + ("" if sym.startswith("allOf") else ":string"),
                                  "%s %s with the string value %r is %s on parse -> print -> parse; printed as %r" % (ot.upper(), it.key.upper(), w, what, shown),
                                  {"text": text, "printed": shown})
    ctx.count("string_slot_roundtrips", n_str)
    # ---- directed: awkward number spellings (tiny / huge magnitudes, many digits, exponents) in scalar, list and pair slots:
    # the value read back must be the SAME number, not a rounded one
    n_num = 0
    for w in ("0.000012345678", "1.5e-10", "4e-12", "1e-05", "2.5e-07", "-0.00000000001234", "123456789012.5", "1e+20", "1e16",
              "0.1", "-7.000000000001", "12345678901234567890", "3.141592653589793", "5e-324", "1.7976931348623157e308"):
        for tpl in ("LAYER TOLERANCE %s END", "LAYER MAXSCALEDENOM %s END", "STYLE WIDTH %s END", "STYLE OFFSET %s 2 END", "MAP EXTENT %s 0 1 1 END",
                    "SYMBOL POINTS %s 1 1 %s END END", "STYLE PATTERN %s 2 END END", "LAYER FEATURE POINTS 1 %s END END END", "LABEL SIZE %s END"):
            text = tpl.replace("%s", w)
            try:
                d = sweep.fast_loads(text)
            except Exception:
                continue
            if rt.excluded(d):
                continue
            n_num += 1
            ctx.note_case(("numspelling", tpl, w))
            r = rt.roundtrip_failure(d, sweep.fast_loads, pp.pprint)
            if r:
                sym = rt.slot_symptom(d)
                ctx.violation(("printed-text-rejected:" if r[0] == "rejected" else "roundtrip:") + sym + ":number-spelling",
                              "the number %s in %r does not survive parse -> print -> parse: %r" % (w, text, r[:2]), {"text": text, "printed": r[2]})
    ctx.count("number_spelling_roundtrips", n_num)
    # ---- a keyword typed number-or-string, carrying the number N in one block and the string "N" in the next
    # (one document, one printer: the two must not be confused)
    n_mix = 0
    for ot in docs.object_types():
        by_key = {}
        for it in docs.slot_items(ot):
            if it.kind == "attr" and not it.repeated and it.tokens and len(it.tokens) == 2:
                by_key.setdefault(it.key, []).append(it)
        for key, its in by_key.items():
            nums = [x for x in its if x.shape.startswith(("number:", "integer:")) and isinstance(x.intended, (int, float)) and not isinstance(x.intended, bool)]
            strs = [x for x in its if x.shape == "string"]
            if not nums or not strs:
                continue
            num = nums[0]
            sitem = docs.Item(key, [strs[0].tokens[0], docs.T("qstr", num.tokens[1].text)], num.tokens[1].text, "string")
            for order in ((num, sitem), (sitem, num)):
                blocks = [docs.Block(ot, [order[0]], False), docs.Block(ot, [order[1]], False)]
                text = docs.render(blocks, docs.Layout())[0]
                try:
                    d = sweep.fast_loads(text)
                except Exception:
                    continue
                n_mix += 1
                ctx.note_case(("numstr", ot, key, order[0] is num))
                r = rt.roundtrip_failure(d, sweep.fast_loads, pp.pprint)
                r2 = rt.roundtrip_failure(d, sweep.fast_loads, PrettyPrinter().pprint)
                if r and not r2:
                    ctx.violation("roundtrip:number-and-string-confused:%s.%s" % (ot, key),
                                  "%s %s written once as the number %s and once as the string \"%s\" in one document does not survive parse -> print -> parse (a fresh printer handles it): %r"
                                  % (ot.upper(), key.upper(), num.tokens[1].text, num.tokens[1].text, r[:2]), {"text": text, "printed": r[2]})
                elif r:
                    sym = rt.slot_symptom(d)
                    ctx.violation(("printed-text-rejected:" if r[0] == "rejected" else "roundtrip:") + sym + ("" if sym.startswith("allOf") else ":number-or-string"),
                                  "%s %s as number and as string in one document: %r" % (ot.upper(), key.upper(), r[:2]), {"text": text, "printed": r[2]})
    ctx.count("number_or_string_documents", n_mix)
    # ---- correspondence: printer model on the loaded dictionaries, parser model on the printed texts
    if ctx.model_ok:
        from corr import printer as P
        sel = list(zip(loaded, printed))
        if len(sel) > ctx.budget(150, 2000):
            sel = rng.sample(sel, ctx.budget(150, 2000))
        outs = P.model_lines([(P.DEFAULT_OPTS, d) for d, _ in sel])
        n_bad = 0
        for (d, t2), o in zip(sel, outs):
            m = o
            a = P.impl_lines(P.DEFAULT_OPTS, d)
            if a != m:
                n_bad += 1
                ctx.violation("correspondence:O-lines", "printer model and PrettyPrinter disagree on a loaded dictionary", {"printed": t2, "model": repr(m)[:600]}, no_input=True)
        ctx.obligation("correspondence O-lines: extracted pprint = real pprint on %d loaded dictionaries" % len(sel), n_bad == 0, "%d disagreements" % n_bad)
        ptexts = [t2 for _, t2 in sel if len(t2) < 20000]
        mouts = harness.model_loads([(t, False, False) for t in ptexts])
        n_bad2 = 0
        for t, m in zip(ptexts, mouts):
            a = harness.impl_loads(t)
            if not harness.same_canon(a, m) and not (a[0] == "exn" and m[0] == "exn" and a[1] == m[1]):
                n_bad2 += 1
                ctx.violation("correspondence:O-dict-printed", "parser model and real loads disagree on printer output", {"text": t}, no_input=True)
        ctx.obligation("correspondence O-dict on %d printed texts" % len(ptexts), n_bad2 == 0, "%d disagreements" % n_bad2)
        ctx.count("traces_validated_against_impl", len(sel) + len(ptexts))
    ctx.sample({"source": texts[-1][1][:200]})
    if printed:
        ctx.sample({"printed": printed[-1][:300]})


def replay(ctx, body):
    import mappyfile
    t = body["replay"]["text"]
    d = sweep.fast_loads(t)
    t2 = mappyfile.dumps(d)
    try:
        d2 = sweep.fast_loads(t2)
    except Exception as ex:
        print("replay: printed text rejected:", type(ex).__name__)
        return 1
    diff = rt.first_diff(rt.plain_all(d), rt.plain_all(d2))
    print("replay:", "content preserved" if not diff else "DIFFERS at %r" % (diff,))
    return 1 if diff else 0
