"""C03: pretty-printed text says exactly what the dictionary says.

Correspondence: O-quot (every Quoter method, exhaustive small strings), O-fmt
(format_value for every (type, keyword) of every schema x a designed value-shape
set), O-lines (documents x option sets).  Hunter: real mappyfile.dumps output
read by an independent reader (tools/hunt/reader.py) and compared with the
dictionary's objects / keywords / values in order and the lexical class the
property requires, over schema-generated dictionaries, corpus files and random
edit histories; hidden keys never printed; unrepresentable values refused."""
import os, json, copy, itertools, collections
from checklib import codec
from corr import printer as P
from hunt import reader as R

MANIFEST = dict(
    technique="Coq proofs (per-class lemmas universal in the value + reflection over the schema slots, induction over values) + extracted-model correspondence + independent reader hunter",
    text=("Coq theorems (Props/C03.v) about the model of pprint.py/quoter.py: lexical class of format_value's output for every (type, keyword) slot of the generated schema "
          "(slot shape classes computed from Gen/Schemas.v by vm_compute, one lemma per class universal in the value): booleans bare, numbers bare, enumerated words bare upper-case, "
          "free strings quoted, bindings / parenthesised expressions / regular expressions / list expressions verbatim where the slot offers the alternative; hidden __x__ keys contribute no line; "
          "an empty dict is refused under every enum keyword; the independent tokeniser Spec/Reader.v reads quoted / bare / numeral tokens of a rendered line back. "
          "Refuted with witnesses (genuine defects): keywords whose schema is allOf:[$ref] print strings unquoted; list elements that are bindings are quoted (LABEL SHADOWSIZE); "
          "an empty dict under a non-enum keyword is printed instead of refused. "
          "Tied to the code on every run: O-quot exhaustively, O-fmt over every slot of the real expanded schema x 50 value shapes x both quotes, O-lines over documents x option sets."),
    design_ref="DESIGN.md 7/C03",
    note=("C03: print_reads_back is partial (token-level read-back proved for quoted, bare and numeral tokens of one line; balanced groups and the whole-document composition are exercised by the hunter only). "
          "Strings containing the output quote character are outside the guarantee (documented limitation). jsonref proxies are modelled as transparent $ref resolution (Model/SchemaStore.v)."))

COMPONENTS = ["printer"]
TARGETS = []
RULE = ("O-quot: all strings up to length 3 (5 in thorough) over the 13-character alphabet x both quotes; O-fmt: every (type, keyword) of the real expanded schema x the designed shape set x both quotes "
        "plus unknown keys/types; hunter: schema-generated dictionaries (every object type), corpus sample, and random edit histories (set/replace/delete keyword, insert/remove/reorder children, "
        "mappyfile.update, snippet assignment, reads of missing keys) under random option sets; non-trivial = at least 4 expected tokens or a refusal case; distinct by sha1 of (options, document)")

ROOT = os.path.dirname(os.path.dirname(os.path.dirname(os.path.abspath(__file__))))
ALPHABET = "\"'\\ai()[]{}/ "


# ---------------------------------------------------------------- schema access for the oracle
_PROPS = None


def schema_props(t, k):
    global _PROPS
    if _PROPS is None:
        _PROPS = {(ty, key): p for ty, key, p in P.slots()}
    return _PROPS.get((t, k))


def slot_signature(t, k):
    p = schema_props(t, k)
    if p is None:
        return "unknown"
    ks = set(p.keys())
    if "allOf" in ks and not ks & {"enum", "oneOf", "anyOf", "type"}:
        return "allOf-ref-slot"
    return "%s.%s" % (t, k)


# ---------------------------------------------------------------- edit histories
_SNIPPETS = {}


def load_snippet(text):
    """mappyfile.loads(text), parsed once per text (each call returns a fresh deep copy)."""
    import mappyfile
    if text not in _SNIPPETS:
        _SNIPPETS[text] = mappyfile.loads(text)
    return copy.deepcopy(_SNIPPETS[text])


def random_history(rng, d, n_ops):
    """Apply n_ops random dict-API edits to the (CaseInsensitiveOrderedDict) document d; returns the op log."""
    import mappyfile
    from mappyfile.tokens import OBJECT_LIST_KEYS
    log = []

    def objects(x, acc):
        if isinstance(x, dict) and isinstance(x.get("__type__"), str) and x["__type__"] in P.object_types():
            acc.append(x)
            for k, v in list(x.items()):
                if isinstance(v, list):
                    for c in v:
                        objects(c, acc)
                elif isinstance(v, dict):
                    objects(v, acc)
        return acc

    for _ in range(n_ops):
        objs = objects(d, [])
        if not objs:
            break
        ob = rng.choice(objs)
        t = ob["__type__"]
        props = [(k, p) for ty, k, p in P.slots() if ty == t and not k.startswith("__")]
        leafs = [(k, p) for k, p in props if P.child_kind(k, p) == "leaf"]
        lists = [(k, p) for k, p in props if P.child_kind(k, p) == "list" and P.type_of_list_key(k)]
        op = rng.choice(["set", "set", "replace", "delete", "insert", "remove", "reorder", "update", "snippet", "read_missing", "read_missing_list"])
        if op in ("set", "replace") and leafs:
            cands = [(k, p) for k, p in leafs if (k in ob) == (op == "replace")] or leafs
            k, p = rng.choice(cands)
            ob[rng.choice([k, k.upper()])] = P.gen_leaf(rng, p, k)
            log.append((op, t, k))
        elif op == "delete":
            ks = [k for k in ob.keys() if not k.startswith("__")]
            if ks:
                k = rng.choice(ks)
                del ob[k]
                log.append((op, t, k))
        elif op == "insert" and lists:
            k, p = rng.choice(lists)
            child = P.gen_doc(rng, P.type_of_list_key(k), depth=2, p_key=0.3)
            lst = ob[k]          # auto-creates [] when missing
            lst.insert(rng.randint(0, len(lst)), child)
            log.append((op, t, k))
        elif op in ("remove", "reorder"):
            ks = [k for k, v in ob.items() if k in OBJECT_LIST_KEYS and isinstance(v, list) and v]
            if ks:
                k = rng.choice(ks)
                if op == "remove":
                    ob[k].pop(rng.randrange(len(ob[k])))
                else:
                    rng.shuffle(ob[k])
                log.append((op, t, k))
        elif op == "update":
            patch = P.gen_doc(rng, t, depth=3, p_key=0.15)
            mappyfile.update(ob, patch)
            log.append((op, t, sorted(k for k in patch.keys() if not k.startswith("__"))))
        elif op == "snippet":
            snip = rng.choice([("classes", "CLASS NAME 'snip' STYLE COLOR 1 2 3 END END", True), ("scalebar", "SCALEBAR STATUS ON UNITS KILOMETERS END", False),
                               ("styles", "STYLE WIDTH 2 OUTLINECOLOR 0 0 0 END", True), ("metadata", "METADATA 'wms_title' 'snip' END", False),
                               ("labels", "LABEL TEXT '[name]' SIZE 8 END", True), ("projection", "LAYER PROJECTION 'init=epsg:3857' END END", False)])
            key, text, as_list = snip
            if schema_props(t, key) is not None or key in ("metadata", "projection"):
                val = load_snippet(text)
                if key == "projection":
                    val = val["projection"] if isinstance(val, dict) and "projection" in val else ["init=epsg:3857"]
                ob[key] = [val] if as_list else val
                log.append((op, t, key))
        elif op == "read_missing" and leafs:
            k, p = rng.choice(leafs)
            if k not in ob:
                _ = ob[k]        # auto-creates an empty dict: must now be refused by dumps
                log.append((op, t, k))
        elif op == "read_missing_list" and lists:
            k, p = rng.choice(lists)
            _ = ob[k]
            log.append((op, t, k))
    return log


# ---------------------------------------------------------------- the hunter
def find_unrepresentable(v, path=""):
    """(path, kind) of the first value with no Mapfile form, or None."""
    from mappyfile.tokens import OBJECT_LIST_KEYS
    if isinstance(v, list):
        for i, x in enumerate(v):
            r = find_unrepresentable(x, "%s[%d]" % (path, i))
            if r:
                return r
        return None
    if not isinstance(v, dict):
        return None
    for k, x in v.items():
        if k.startswith("__") and k.endswith("__"):
            continue
        if isinstance(x, dict) and not x and k not in ("config",) + R.KEYDICTS + ("projection", "pattern", "points"):
            return ("%s.%s" % (path, k), "empty-dict")
        if x is None:
            return ("%s.%s" % (path, k), "none")
        if isinstance(x, (dict, list)):
            r = find_unrepresentable(x, "%s.%s" % (path, k))
            if r:
                return r
    return None


def quote_clash(d, q):
    """A string that will be written between quotes contains the output quote (outside the guarantee)."""
    return any(q in s for s in P.strings_of(d) if not s.lstrip().startswith(("(", "NOT (")))


def has_comments(v):
    if isinstance(v, dict):
        return any(k == "__comments__" and x or has_comments(x) for k, x in v.items())
    if isinstance(v, list):
        return any(has_comments(x) for x in v)
    return False


def hunt_one(ctx, name, o, d, stats, history=None):
    import mappyfile
    if o["newlinechar"] == " " and (o["end_comment"] or has_comments(d)):
        o = dict(o, newlinechar="\n")      # a space is only an admissible newlinechar when no comments are emitted
    if P.has_multiline(d) or quote_clash(d, o["quote"]):
        stats["skipped_outside_guarantee"] += 1
        return
    bad = find_unrepresentable(d)
    after = copy.deepcopy(d)          # separate_complex_types reorders the argument in place: "in order" is the order after the call
    try:
        text = mappyfile.dumps(after, **o)
        raised = None
    except Exception as ex:
        text, raised = None, type(ex).__name__
        after = d
    try:
        exp = R.expected_tokens(after, schema_props)
        noform = None
    except R.NoForm as ex:
        exp, noform = None, str(ex)
    except Exception:
        stats["skipped_oracle_error"] += 1
        return
    replay = {"doc": P.doc_to_json(d), "opts": o, "history": history}
    if exp is None:
        ctx.note_case(repr((sorted(o.items()), json.dumps(replay["doc"], default=str))), nontrivial=True)
        stats["unrepresentable_cases"] += 1
        if raised is None and bad is not None:
            fp = "refusal:%s-printed" % bad[1]
            stats["issue:" + fp] += 1
            if ctx.match_known(fp) is not None:
                ctx.violation(fp, "", {})
                return
            if stats["issue:" + fp] > 1:
                return
            ctx.violation(fp, "dumps wrote text for a dictionary holding a value with no Mapfile representation at %s (%s): %r"
                          % (bad[0], noform, text[:200]), dict(replay, fingerprint=fp))
        elif raised is not None:
            stats["refused:" + raised] += 1
        return
    ctx.note_case(repr((sorted(o.items()), json.dumps(replay["doc"], default=str))), nontrivial=len(exp) >= 4)
    if raised is not None:
        stats["dumps_raised_on_representable:" + raised] += 1
        return
    stats["hunted"] += 1
    try:
        got = R.tokenize(text)
    except R.ReadError as ex:
        fp = "reader:unreadable"
        ctx.violation(fp, "the independent reader cannot read the printed text: %s" % ex, dict(replay, fingerprint=fp, text=text))
        return
    # compare, resynchronising after a mismatch that is a listed finding so that later tokens are still checked
    fp = None
    for _round in range(50):
        i = R.first_mismatch(exp, got)
        if i is None:
            return
        e = exp[i] if i < len(exp) else None
        g = got[i] if i < len(got) else None
        where = e[2] if e is not None and len(e) > 2 else ""
        if e is not None and where:
            t, k = where.rsplit("/", 1)[-1].split(".", 1)
            sig = slot_signature(t, k)
            if sig == "allOf-ref-slot":
                fp = "lexclass:allOf-ref-slot"
            elif e[0] == "B" and g is not None and g[0] == "Q":
                fp = "lexclass:list-binding-quoted"
            else:
                fp = "lexclass:%s:%s->%s" % (sig, e[0], g[0] if g else "none")
        else:
            hid = g is not None and isinstance(g[1], str) and g[1].startswith("__")
            cfg = hid and any(x[1] == "CONFIG" for x in got[max(0, i - 2):i])
            fp = ("hidden:printed:config" if cfg else "hidden:printed") if hid else "structure:token-%s" % ("missing" if g is None else "extra" if e is None else "differs")
        if ctx.match_known(fp) is None:
            break
        if not where:
            stats["issue:" + fp] += 1
            ctx.violation(fp, "", {})
            return
        # known finding at slot `where`: drop the rest of this slot's tokens on both sides and continue
        stats["issue:" + fp] += 1
        ctx.violation(fp, "", {})
        j = i
        while j < len(exp) and len(exp[j]) > 2 and exp[j][2] == where:
            j += 1
        nxt = exp[j] if j < len(exp) else None
        m = i
        while m < len(got) and not (nxt is not None and R.same_token(nxt, got[m])):
            m += 1
        if m >= len(got) and nxt is not None:
            return          # the rest of the text was swallowed by the defect itself (e.g. an unquoted #rrggbb read as a comment)
        exp, got = exp[j:], got[m:]
    else:
        return
    stats["issue:" + fp] += 1
    if ctx.match_known(fp) is not None:
        ctx.violation(fp, "", {})
        return
    if stats["issue:" + fp] > 1:
        return                      # already reported (and shrunk) once in this run

    def fails(w, fp=fp):
        try:
            w2 = copy.deepcopy(w)
            g2 = R.tokenize(mappyfile.dumps(w2, **o))
            ex2 = R.expected_tokens(w2, schema_props)
        except Exception:
            return False
        return R.first_mismatch(ex2, g2) is not None
    small = P.shrink_doc(d, fails, max_steps=200)
    ctx.violation(fp, "printed text disagrees with the dictionary at token %d (%s): expected %r, read %r (document %s)"
                  % (i, where, e[:2] if e else None, g, name),
                  {"doc": P.doc_to_json(small), "opts": o, "fingerprint": fp, "history": history,
                   "text": mappyfile.dumps(copy.deepcopy(small), **o)})


def designed_docs():
    from mappyfile.ordereddict import CaseInsensitiveOrderedDict as CI
    import mappyfile
    docs = [("allof-string", load_snippet('LABEL EXPRESSION "abc" END')),
            ("allof-hex", load_snippet('CLASS BACKGROUNDCOLOR "#ff0000" END')),
            ("list-binding", load_snippet("LABEL SHADOWSIZE [a] [b] END")),
            ("offset-binding", load_snippet("STYLE OFFSET [a] 2 END")),
            ("hidden-config", CI(CI, [("__type__", "map"), ("config", CI(CI, [("__x__", "y"), ("a", "b")]))])),
            ("hidden", CI(CI, [("__type__", "layer"), ("__position__", {"line": 1}), ("__tokens__", ["x"]), ("name", "x"), ("__x__", "y")]))]
    # user-defined hidden keys inside every kind of key-value block (reachable only through the dictionary API)
    m = load_snippet("MAP WEB METADATA 'a' 'b' END END LAYER NAME 'x' VALIDATION 'k' 'v' END CONNECTIONOPTIONS 'o' 'p' END END END")
    m["web"]["metadata"]["__source__"] = "x"
    m["layers"][0]["validation"]["__note__"] = "n"
    m["layers"][0]["connectionoptions"]["__opt__"] = "q"
    docs.append(("hidden-keyvalue-blocks", m))
    docs.append(("hidden-metadata-root", CI(CI, [("__type__", "metadata"), ("__x__", "y"), ("a", "b")])))
    st = load_snippet("SCALETOKEN NAME '%pri%' VALUES '0' 'ten' '1000' 'thousand' END END")
    st["values"]["__unit__"] = "m"
    docs.append(("hidden-values", st))
    l = load_snippet("LAYER NAME 'x' END")
    _ = l["group"]
    docs.append(("autocreated-nonenum", l))
    l2 = load_snippet("LAYER NAME 'x' END")
    _ = l2["status"]
    docs.append(("autocreated-enum", l2))
    l3 = load_snippet("MAP NAME 'x' END")
    _ = l3["web"]
    docs.append(("autocreated-object", l3))
    l4 = load_snippet("MAP NAME 'x' END")
    _ = l4["layers"]
    docs.append(("autocreated-list", l4))
    return docs


def run(ctx):
    P.quiet()
    rng = ctx.rng
    stats = collections.Counter()
    # ---------------- O-quot
    if ctx.model_ok:
        L = ctx.budget(3, 5)
        strs = [""] + ["".join(t) for n in range(1, L + 1) for t in itertools.product(ALPHABET, repeat=n)]
        qcases = [(q, s) for q in P.QUOTES for s in strs]
        n_bad = 0
        for c, mm in zip(qcases, P.model_quot(qcases)):
            if P.impl_quot(*c) != mm:
                n_bad += 1
                if n_bad <= 3:
                    ctx.violation("correspondence:O-quot", "Quoter model and implementation disagree on %r: impl %r model %r" % (c, P.impl_quot(*c), mm),
                                  {"case": list(c)}, no_input=True)
        ctx.obligation("correspondence O-quot (every Quoter method, all strings of length <= %d over 13 characters, both quotes)" % L, n_bad == 0,
                       "%d cases, %d disagreements" % (len(qcases), n_bad))
        ctx.count("oquot_cases", len(qcases))
        ctx.coverage["exhaustive"] = True
        # ---------------- O-fmt
        fcases = []
        for ty, k, p in P.slots():
            for v in P.fmt_shapes(p):
                for q in P.QUOTES:
                    fcases.append((q, ty, k, v))
        for ty, k in [("layer", "nosuchkey"), ("nosuchtype", "name"), ("color", "x"), ("align", "x"), ("metadata", "a"), ("map", "NAME"), ("LAYER", "name")]:
            for v in P.fmt_shapes({}):
                fcases.append(('"', ty, k, v))
        n_bad = 0
        exc_hist = collections.Counter()
        for c, mm in zip(fcases, P.model_fmt(fcases)):
            im = P.impl_fmt(*c)
            if im[0] == "exc":
                exc_hist[P.EXC_NAME.get(im[1], str(im[1]))] += 1
            if im != mm:
                n_bad += 1
                if n_bad <= 3:
                    ctx.violation("correspondence:O-fmt", "format_value model and implementation disagree on %s.%s value %r quote %s: impl %r model %r"
                                  % (c[1], c[2], c[3], c[0], im, mm), {"case": [c[0], c[1], c[2], repr(c[3])]}, no_input=True)
        ctx.obligation("correspondence O-fmt (format_value on every (type, keyword) x shape set x both quotes)", n_bad == 0,
                       "%d cases over %d slots, %d disagreements" % (len(fcases), len(P.slots()), n_bad))
        ctx.count("ofmt_cases", len(fcases))
        ctx.coverage["ofmt_exception_histogram"] = dict(exc_hist)
    # ---------------- documents
    docs = []
    cpath = os.path.join(ROOT, "corpus", "C03.json")
    if os.path.exists(cpath):
        for c in json.load(open(cpath)):
            docs.append(("regression:" + c.get("name", ""), c["opts"], P.doc_from_json(c["doc"]), None))
    for name, d in designed_docs():
        docs.append((name, dict(P.DEFAULT_OPTS), d, None))
        docs.append((name, P.rand_opts(rng), d, None))
    types = P.object_types()
    n_gen = ctx.budget(400, 10000)
    for i in range(n_gen):
        ty = types[i % len(types)] if i < 4 * len(types) else rng.choice(["map", "layer", "class", "style", "label"] + types)
        d = P.gen_doc(rng, ty, p_key=rng.choice([0.2, 0.5, 0.9, 1.0]), comments=rng.choice([0, 0, 0.4]))
        docs.append(("gen:" + ty, P.rand_opts(rng), d, None))
    n_hist = ctx.budget(300, 8000)
    for i in range(n_hist):
        d = P.gen_doc(rng, rng.choice(["map", "map", "layer", "class"]), p_key=rng.choice([0.2, 0.5]))
        log = random_history(rng, d, rng.randint(1, 8))
        docs.append(("history", P.rand_opts(rng), d, [list(map(str, x)) for x in log]))
    cdocs, n_unparsed = P.corpus_docs(rng, n_files=ctx.budget(15, None), max_size=ctx.budget(20000, None))
    for name, d in cdocs:
        docs.append((name, P.rand_opts(rng), d, None))
    ctx.count("generated_documents", n_gen)
    ctx.count("edit_histories", n_hist)
    ctx.count("corpus_documents", len(cdocs))
    # ---------------- O-lines on a subset
    if ctx.model_ok:
        sub = docs[: ctx.budget(250, 4000)] + docs[-len(cdocs):]
        model = P.model_lines([(o, d) for _, o, d, _ in sub])
        n_bad = 0
        for (name, o, d, h), mm in zip(sub, model):
            im = P.impl_lines(o, d)
            if im != mm:
                n_bad += 1
                ctx.violation("correspondence:O-lines", "model and implementation disagree on %s (%s)" % (name, im[0] + "/" + mm[0]),
                              {"doc": P.doc_to_json(d), "opts": o}, no_input=True)
        ctx.obligation("correspondence O-lines (text / exception / dict-after on documents x option sets)", n_bad == 0,
                       "%d cases, %d disagreements" % (len(sub), n_bad))
        ctx.count("traces_validated_against_impl", len(sub))
    # ---------------- hunter
    op_hist = collections.Counter()
    for name, o, d, h in docs:
        for x in h or []:
            op_hist[x[0]] += 1
        hunt_one(ctx, name, o, d, stats, h)
    ctx.coverage["hunter"] = dict(stats)
    ctx.coverage["edit_op_histogram"] = dict(op_hist)
    history_probe(ctx, rng, docs)
    for name, o, d, h in docs[-3:]:
        ctx.sample({"name": name, "opts": o, "doc": json.dumps(P.doc_to_json(d), default=str)[:300], "history": h})


HISTORY_SCRIPT = r"""
import sys, json, copy, logging
logging.disable(logging.CRITICAL)
import mappyfile
from mappyfile import utils
from corr import printer as P
cases = json.load(sys.stdin)
out = []
for c in cases:
    d = P.doc_from_json(c["doc"])
    ty = d.get("__type__") if isinstance(d, dict) else None
    # the FIRST use of this type's schema in this process is a versioned one
    try:
        mappyfile.validate(copy.deepcopy(d), version=c["version"])
    except Exception:
        pass
    try:
        if ty:
            utils.create(ty, version=c["version"])
    except Exception:
        pass
    try:
        out.append(["text", mappyfile.dumps(d, **c["opts"])])
    except Exception as ex:
        out.append(["exc", type(ex).__name__])
json.dump(out, sys.stdout)
"""


def history_probe(ctx, rng, docs):
    """The printed text may not depend on what the process did before: a fresh interpreter that first validates the
    dictionary against a VERSIONED schema (and creates a default object of that version) and only then prints it must
    write what this long-running process writes."""
    import subprocess, mappyfile
    from checklib import build
    pool = [x for x in docs if isinstance(x[2], dict) and x[3] is None]
    sel = rng.sample(pool, min(len(pool), ctx.budget(30, 300)))
    cases = [{"doc": P.doc_to_json(d), "opts": o, "version": rng.choice([5.0, 6.0, 7.0, 7.6, 8.0, 8.2])} for _, o, d, _ in sel]
    env = dict(os.environ, PYTHONPATH=os.pathsep.join([build.REPO, os.path.join(ROOT, "tools")]), PYTHONHASHSEED="0", PYTHONDONTWRITEBYTECODE="1")
    try:
        p = subprocess.run(["/venv/bin/python", "-c", HISTORY_SCRIPT], input=json.dumps(cases, default=str).encode(), env=env,
                           stdout=subprocess.PIPE, stderr=subprocess.PIPE, timeout=600)
        outs = json.loads(p.stdout.decode())
    except Exception as ex:
        ctx.obligation("history probe (fresh interpreter: versioned validate/create first, then dumps)", False, "probe failed to run: %s" % str(ex)[:300])
        return
    n_bad = 0
    for c, (name, o, d, _), r in zip(cases, sel, outs):
        try:
            here = ["text", mappyfile.dumps(P.doc_from_json(json.loads(json.dumps(c["doc"], default=str))), **o)]
        except Exception as ex:
            here = ["exc", type(ex).__name__]
        ctx.note_case(("history-probe", name, json.dumps(c["opts"], sort_keys=True, default=str), c["version"]))
        if here != r:
            n_bad += 1
            if n_bad <= 3:
                ctx.violation("print-depends-on-history:versioned-first", "dumps writes a different text in a fresh process that first used the schema of version %s (validate / create) than in this process"
                              % c["version"], {"doc": c["doc"], "opts": o, "version": c["version"], "fresh": r[1][:600] if r[0] == "text" else r, "here": here[1][:600] if here[0] == "text" else here})
    ctx.count("history_probe_documents", len(cases))


def replay(ctx, body):
    import mappyfile
    P.quiet()
    r = body["replay"]
    d = P.doc_from_json(r["doc"])
    o = r["opts"]
    try:
        text = mappyfile.dumps(copy.deepcopy(d), **o)
    except Exception as ex:
        print("replay: dumps raised", type(ex).__name__, ex)
        return 0
    print(text)
    try:
        exp = R.expected_tokens(d, schema_props)
    except R.NoForm as ex:
        print("replay: the dictionary holds an unrepresentable value (%s) and dumps wrote text" % ex)
        return 1
    got = R.tokenize(text)
    i = R.first_mismatch(exp, got)
    print("replay:", "tokens agree" if i is None else "mismatch at token %d: expected %r read %r" % (i, exp[i] if i < len(exp) else None, got[i] if i < len(got) else None))
    return 0 if i is None else 1
