"""Shared harness for the validator component (C07, C09): wire encoding, the
real-side observers, canonical forms, schema walking, document generators."""
import copy, glob, json, os
from collections import OrderedDict
from checklib import codec
from checklib.model import run_model

REPO = os.environ.get("VERIF_REPO", "/repo")
EXN = {"LarkUnexpectedCharacters": 1, "LarkUnexpectedToken": 2, "KeyError": 5, "IndexError": 4, "AttributeError": 6,
       "TypeError": 7, "ValueError": 8, "AssertionError": 9, "OSError": 10, "IOError": 10, "FileNotFoundError": 10,
       "UnboundLocalError": 11, "SyntaxError": 12, "RecursionError": 13}
EXN_NAME = {4: "IndexError", 5: "KeyError", 6: "AttributeError", 7: "TypeError", 8: "ValueError", 10: "OSError",
            13: "RecursionError", 99: "OutOfFuel"}


def exn_name(ex):
    n = type(ex).__name__
    for k in type(ex).__mro__:
        if k.__name__ in EXN:
            return EXN_NAME.get(EXN[k.__name__], k.__name__)
    return n


# ------------------------------------------------------------------ encoding
def enc_ver(v):
    if v is None:
        return [0]
    if isinstance(v, bool):
        raise TypeError("bool version")
    if isinstance(v, int):
        return [1, 0, v]
    m, e = codec.float_me(v)
    return [1, 1, m, e]


def enc_name_ver(name, v):
    return codec.enc_str(name) + enc_ver(v)


def digest(toks):
    h = 17
    for x in toks:
        h = (h * 31 + x + 7) & 1073741823
    return h


# ------------------------------------------------------------------ real side
def plain(x):
    """jsonref proxy tree -> plain dict/list tree (what a serialiser sees)."""
    if isinstance(x, dict):
        return OrderedDict((k, plain(v)) for k, v in x.items())
    if isinstance(x, (list, tuple)):
        return [plain(v) for v in x]
    return x


def schema_names():
    import mappyfile
    folder = os.path.join(os.path.dirname(os.path.realpath(mappyfile.__file__)), "schemas")
    return sorted(os.path.splitext(os.path.basename(f))[0] for f in glob.glob(os.path.join(folder, "*.json")))


def raw_schemas():
    import mappyfile
    folder = os.path.join(os.path.dirname(os.path.realpath(mappyfile.__file__)), "schemas")
    out = OrderedDict()
    for f in sorted(glob.glob(os.path.join(folder, "*.json"))):
        with open(f, encoding="utf-8") as fh:
            out[os.path.basename(f)] = json.load(fh, object_pairs_hook=OrderedDict)
    return out


def real_versioned(version, name, validator=None):
    """('ok', canonical tree) or ('exc', name)."""
    from mappyfile.validator import Validator
    v = validator or Validator()
    try:
        s = v.get_versioned_schema(version, name)
        return ("ok", codec.canon(plain(s)))
    except Exception as ex:  # noqa
        return ("exc", exn_name(ex))


def real_expanded(name, version, validator):
    try:
        s = validator.get_expanded_schema(name, version)
        return ("ok", codec.canon(plain(s)))
    except Exception as ex:  # noqa
        return ("exc", exn_name(ex))


def recording_validator():
    from mappyfile.validator import Validator

    class Rec(Validator):
        def __init__(self):
            super().__init__()
            self.rec = []

        def create_message(self, rootdict, path, error, add_comments):
            self.rec.append((list(path), error.validator))
            return super().create_message(rootdict, path, error, add_comments)
    return Rec()


def real_validate(d, name="map", version=None, validator=None):
    """('ok', [(path, validator, message, line, column)]) or ('exc', name).
    line/column are the string 'absent' when the message has no position."""
    v = validator or recording_validator()
    v.rec = []
    try:
        msgs = v.validate(copy.deepcopy(d), schema_name=name, version=version)
    except Exception as ex:  # noqa
        return ("exc", exn_name(ex))
    out = []
    for (path, kw), m in zip(v.rec, msgs):
        out.append((list(path), kw, m.get("message"), m.get("line", "absent"), m.get("column", "absent")))
    if len(v.rec) != len(msgs):
        return ("exc", "message-count-mismatch")
    return ("ok", out)


# ------------------------------------------------------------------ model side
def dec_msgs(toks):
    rd = codec.Reader(toks)
    st = rd.z()
    if st == 1:
        return ("exc", EXN_NAME.get(rd.z(), "code"))
    if st != 0:
        return ("bad", list(toks))
    n = rd.z()
    out = []
    for _ in range(n):
        v = rd.value()
        items = dict(v[2])
        out.append((items["path"], items["validator"], items["message"], items.get("line", "absent"), items.get("column", "absent")))
    return ("ok", out)


def dec_tree(toks):
    rd = codec.Reader(toks)
    st = rd.z()
    if st == 1:
        return ("exc", EXN_NAME.get(rd.z(), "code"))
    if st != 0:
        return ("bad", list(toks))
    return ("ok", rd.value())


def model_versioned(cases):
    """cases: [(version, name)]"""
    outs = run_model("validator", [(70, enc_name_ver(n, v)) for v, n in cases])
    return [dec_tree(o) for o in outs]


def model_validate(cases):
    """cases: [(d, name, version)]"""
    outs = run_model("validator", [(71, codec.enc_value(d) + enc_name_ver(n, v)) for d, n, v in cases])
    return [dec_msgs(o) for o in outs]


def canon_msgs(r):
    """normalise a validate result for comparison (floats in line/column never occur)."""
    if r[0] != "ok":
        return r
    return ("ok", [(list(p), k, m, l, c) for p, k, m, l, c in r[1]])
