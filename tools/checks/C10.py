"""C10: expression rewriting preserves structure.

Correspondence: random/exhaustive expression trees are rendered to source text
by an independent renderer, parsed by the real mappyfile in every expression
position, and the stored string is compared with the extracted Coq model's
`norm` of the same tree (plus builder-, literal- and format_value-level
observation points).  Hunter: the property stated against the public API with
an independent Python oracle (own tokeniser, own precedence reader following
the MapServer operator table of the property text, re-parse and dumps/loads
round trip)."""
import os, json, itertools, re
from decimal import Decimal
from checklib import codec
from checklib.model import run_model

MANIFEST = dict(
    technique="Coq proof by induction over expression trees (string builders modelled character for character; independent precedence reader as specification) + extracted-model correspondence + API-level hunter",
    text=("Coq theorems (Props/C10.v), universal over expression trees of any size: the stored string is exactly the concatenation of the tree's tokens and single spaces "
          "(norm_flat), its operand/operator sequence is that of the source with && || ! spelled AND OR NOT and everything else verbatim or numerically equal (leaves_preserved); "
          "reading source and stored string with an independently written MapServer precedence reader (Spec/MsExpr.v: OR < AND < NOT < comparisons < + - < * / % ^ < unary minus) gives the same "
          "abstract tree under the guards percent_free and paren_safe (no_regrouping), with refutation witnesses for '%' sitting in compare_op and for the textual in_parenthesis test; "
          "the stored string is the source of a grammar tree with the same stored string (reparse_fixed_point, guarded; refuted without); format_value returns parenthesised strings unchanged "
          "in every oneOf/anyOf slot. The model is tied to transformer.py/quoter.py/pprint.py by running the extracted model and the real code on all well-formed trees with up to 3 operators "
          "(4 in thorough) over every operator spelling and operand kind plus random trees up to depth 8, in the six expression positions, and at builder/literal/format_value level. "
          "That Lark's LALR automaton picks the intended tree for the rendered text is established only by these runs (no Coq parser)."),
    design_ref="DESIGN.md 7/C10",
    note="C10: Lark's choice of derivation and its lexer are not modelled (tied through generated trees); float repr exact for <= 15 significant digits; function-call parameters restricted to leaves in the tree type; tokenisation uniqueness of the stored string is checked by the hunter's tokeniser, not proved.")

COMPONENTS = ["expr"]
TARGETS = []
RULE = ("all ladder-well-formed trees with <= 3 operator/group nodes (<= 4 in thorough) over 9 binary kinds and not/neg/group, spellings and operands assigned round-robin so every spelling and operand kind occurs; "
        "every comparison spelling (upper/lower/mixed case) in 8 fixed contexts; random trees up to depth 8; each in one of six positions round-robin; "
        "non-trivial = at least two operators; distinct by rendered source text + position")
EXPLANATION = ("Known findings are the genuine defects: '%' parsed as a comparison operator, the textual in_parenthesis test dropping outer parentheses of '(x) op (y)', "
               "'--x' produced for double negation, and attribute bindings inside list expressions losing their brackets.")

ROOT = os.path.dirname(os.path.dirname(os.path.dirname(os.path.abspath(__file__))))

# ------------------------------------------------------------------ vocabulary
CMP_CANON = ["=", "==", "!=", "<", "<=", ">", ">=", "~", "~*", "=*", "%", "IN", "EQ", "NE", "LT", "LE", "GT", "GE", "LIKE"]
CMP_ALL = CMP_CANON + ["in", "eq", "ne", "lt", "le", "gt", "ge", "like", "In", "Eq", "nE", "Like", "gE"]
AND_SP = ["AND", "&&", "and", "And"]
OR_SP = ["OR", "||", "or", "oR"]
NOT_SP = ["NOT", "!", "not", "Not"]
AOPS = ["+", "-", "*", "/", "^"]
AOP_LEVEL = {"+": 3, "-": 3, "*": 4, "/": 4, "^": 4}

LEAVES = [
    ("bind", "a"), ("int", "1"), ("float", "1.50"), ("verb", "'x'"), ("bind", "name_1"), ("int", "007"),
    ("verb", '"y z"'), ("float", "2.5E-7"), ("int", "-5"), ("verb", "`b q`"), ("bind", "B-c:d"), ("float", ".5"),
    ("int", "+5"), ("verb", "\"it's\""), ("float", "1e3"), ("verb", "'say \"hi\"'"), ("float", "-12.345e10"),
    ("int", "42"), ("verb", "'a'i"), ("float", "5."), ("int", "0"), ("float", "1e22"), ("float", "0.0001"),
    ("float", "0.00001"), ("verb", "'%v%'"), ("int", "-0"), ("float", "123456789.012345"),
]
FUNCS = [
    ("func", "length", [("bind", "n")]),
    ("func", "tostring", [("bind", "x"), ("verb", '"%.2f"')]),
    ("func", "round", [("bind", "a"), ("int", "2")]),
    ("func", "f", [("int", "1"), ("float", "2.50"), ("bool", "TRUE", True), ("verb", "'s'")]),
]
SPECIAL_LEAVES = [
    ("verb", "/^a.b$/"), ("verb", "/x y/i"), ("verb", "%rt%"), ("bool", "true", True), ("bool", "FALSE", False),
    ("list", [("v", "1"), ("v", "2"), ("v", "3")]), ("list", [("v", "'a'"), ("v", "'b'")]),
    ("list", [("v", "007"), ("v", "1.50")]), ("list", [("v", "a b"), ("v", " c")]),
]
LISTBIND_LEAVES = [("list", [("b", "a"), ("b", "b")]), ("list", [("v", "1"), ("b", "c")])]

POSITIONS = [
    ("CLASS EXPRESSION %s END", "expression"),
    ("LAYER FILTER %s END", "filter"),
    ("CLASS TEXT %s END", "text"),
    ("STYLE GEOMTRANSFORM %s END", "geomtransform"),
    ("CLUSTER GROUP %s END", "group"),
    ("CLUSTER FILTER %s END", "filter"),
]

# ------------------------------------------------------------------ trees
# ("leaf", L) | ("func", name, [L]) | ("grp", t) | ("not", sp, t) | ("neg", t) | ("pos", t)
# | ("ar", o, l, r) | ("cmp", op, l, r) | ("and", sp, l, r) | ("or", sp, l, r)
# L: ("bind", n) | ("int", sp) | ("float", sp) | ("bool", sp, b) | ("verb", raw) | ("list", [("v", raw)|("b", name)])


def level(t):
    k = t[0]
    if k == "or":
        return 0
    if k == "and":
        return 1
    if k == "cmp":
        return 2
    if k == "ar":
        return AOP_LEVEL[t[1]]
    if k in ("neg", "pos"):
        return 5
    return 6


def ends_not(t):
    k = t[0]
    if k == "not":
        return True
    if k in ("neg", "pos"):
        return ends_not(t[1])
    if k in ("ar", "cmp", "and", "or"):
        return ends_not(t[3])
    return False


def wf(t):
    k = t[0]
    if k == "leaf":
        return True
    if k == "func":
        return len(t[2]) > 0
    if k == "grp":
        return wf(t[1])
    if k == "not":
        return wf(t[2]) and level(t[2]) >= 2
    if k in ("neg", "pos"):
        return wf(t[1]) and level(t[1]) >= 5
    lv = level(t)
    l, r = t[2], t[3]
    return wf(l) and wf(r) and level(l) >= lv and level(r) > lv and (lv < 2 or not ends_not(l))


def children(t):
    k = t[0]
    if k in ("grp", "neg", "pos"):
        return [t[1]]
    if k == "not":
        return [t[2]]
    if k in ("ar", "cmp", "and", "or"):
        return [t[2], t[3]]
    return []


def n_ops(t):
    return (0 if t[0] in ("leaf", "func") else 1) + sum(n_ops(c) for c in children(t))


def depth(t):
    return 1 + max([depth(c) for c in children(t)] or [0])


def leaf_src(L):
    k = L[0]
    if k == "bind":
        return "[" + L[1] + "]"
    if k in ("int", "float", "bool", "verb"):
        return L[1]
    return "{" + ",".join(("[" + e[1] + "]") if e[0] == "b" else e[1] for e in L[1]) + "}"


def src_tokens(t):
    """Independent renderer: the token texts of a source text for tree t."""
    k = t[0]
    if k == "leaf":
        return [leaf_src(t[1])]
    if k == "func":
        out = [t[1], "("]
        for i, p in enumerate(t[2]):
            if i:
                out.append(",")
            out.append(leaf_src(p))
        return out + [")"]
    if k == "grp":
        return ["("] + src_tokens(t[1]) + [")"]
    if k == "not":
        return [t[1]] + src_tokens(t[2])
    if k == "neg":
        return ["-"] + src_tokens(t[1])
    if k == "pos":
        return ["+"] + src_tokens(t[1])
    return src_tokens(t[2]) + [t[1]] + src_tokens(t[3])


def render(t, tight=False):
    s = " ".join(src_tokens(t))
    if tight:
        s = s.replace("( ", "(").replace(" )", ")")
    return s


# wire code (Model/ObsExpr.v)
def enc_leaf(L):
    k = L[0]
    if k == "bind":
        return [0] + codec.enc_str(L[1])
    if k == "int":
        return [1] + codec.enc_str(L[1])
    if k == "float":
        return [2] + codec.enc_str(L[1])
    if k == "bool":
        return [3] + codec.enc_str(L[1]) + [1 if L[2] else 0]
    if k == "verb":
        return [4] + codec.enc_str(L[1])
    out = [5, len(L[1])]
    for e in L[1]:
        out += [1 if e[0] == "b" else 0] + codec.enc_str(e[1])
    return out


def enc_tree(t):
    k = t[0]
    if k == "leaf":
        return [0] + enc_leaf(t[1])
    if k == "func":
        out = [1] + codec.enc_str(t[1]) + [len(t[2])]
        for p in t[2]:
            out += enc_leaf(p)
        return out
    if k == "grp":
        return [2] + enc_tree(t[1])
    if k == "not":
        return [3] + codec.enc_str(t[1]) + enc_tree(t[2])
    if k == "neg":
        return [4] + enc_tree(t[1])
    if k == "pos":
        return [5] + enc_tree(t[1])
    if k == "ar":
        return [6, AOPS.index(t[1])] + enc_tree(t[2]) + enc_tree(t[3])
    code = {"cmp": 7, "and": 8, "or": 9}[k]
    return [code] + codec.enc_str(t[1]) + enc_tree(t[2]) + enc_tree(t[3])


# ------------------------------------------------------------------ generators
class Cycler:
    """Round-robin assignment of spellings and operands."""

    def __init__(self, rng):
        self.rng = rng
        self.i = {}

    def pick(self, name, seq):
        j = self.i.get(name, 0)
        self.i[name] = j + 1
        return seq[j % len(seq)]

    def leaf(self):
        j = self.i.get("leafkind", 0)
        self.i["leafkind"] = j + 1
        if j % 9 == 7:
            return self.pick("func", FUNCS)
        if j % 23 == 11:
            return ("leaf", self.pick("special", SPECIAL_LEAVES))
        return ("leaf", self.pick("leaf", LEAVES))


BIN_KINDS = ["or", "and", "cmp", "pct", "+", "-", "*", "/", "^"]
UN_KINDS = ["not", "neg", "grp"]


def mk_bin(kind, l, r):
    if kind == "or":
        return ("or", "OR", l, r)
    if kind == "and":
        return ("and", "AND", l, r)
    if kind == "cmp":
        return ("cmp", "=", l, r)
    if kind == "pct":
        return ("cmp", "%", l, r)
    return ("ar", kind, l, r)


def mk_un(kind, x):
    if kind == "not":
        return ("not", "NOT", x)
    if kind == "neg":
        return ("neg", x)
    return ("grp", x)


_shape_cache = {}


def shapes(n):
    """All ladder-well-formed shapes with exactly n operator/group nodes; leaves are None."""
    if n in _shape_cache:
        return _shape_cache[n]
    if n == 0:
        res = [("leaf", None)]
    else:
        res = []
        for k in UN_KINDS:
            for x in shapes(n - 1):
                t = mk_un(k, x)
                if wf(t):
                    res.append(t)
        for k in BIN_KINDS:
            for i in range(n):
                for l in shapes(i):
                    for r in shapes(n - 1 - i):
                        t = mk_bin(k, l, r)
                        if wf(t):
                            res.append(t)
    _shape_cache[n] = res
    return res


def instantiate(t, cy):
    k = t[0]
    if k == "leaf":
        return cy.leaf() if t[1] is None else t
    if k == "func":
        return t
    if k == "grp":
        return ("grp", instantiate(t[1], cy))
    if k == "not":
        return ("not", cy.pick("not", NOT_SP), instantiate(t[2], cy))
    if k in ("neg", "pos"):
        return (k, instantiate(t[1], cy))
    l = instantiate(t[2], cy)
    r = instantiate(t[3], cy)
    if k == "ar":
        return ("ar", t[1], l, r)
    if k == "cmp":
        op = "%" if t[1] == "%" else cy.pick("cmp", [o for o in CMP_ALL if o != "%"])
        return ("cmp", op, l, r)
    if k == "and":
        return ("and", cy.pick("and", AND_SP), l, r)
    return ("or", cy.pick("or", OR_SP), l, r)


def rand_tree(rng, lv, d, cy):
    """Random tree of ladder level >= lv, depth budget d."""
    def atom():
        x = rng.random()
        if d <= 0 or x < 0.45:
            return cy.leaf()
        if x < 0.8:
            return ("grp", rand_tree(rng, 0, d - 1, cy))
        if x < 0.9:
            return ("not", rng.choice(NOT_SP), rand_tree(rng, 2, d - 1, cy))
        return cy.leaf()

    if d <= 0:
        return cy.leaf()
    choices = []
    if lv <= 0:
        choices += ["or"] * 2
    if lv <= 1:
        choices += ["and"] * 2
    if lv <= 2:
        choices += ["cmp"] * 3
    if lv <= 3:
        choices += ["+", "-"]
    if lv <= 4:
        choices += ["*", "/", "^"]
    if lv <= 5:
        choices += ["neg"]
        if rng.random() < 0.1:
            choices += ["pos"]
    choices += ["atom"] * 2
    k = rng.choice(choices)
    if k == "atom":
        return atom()
    if k in ("neg", "pos"):
        return (k, rand_tree(rng, 5, d - 1, cy))
    nlv = {"or": 0, "and": 1, "cmp": 2}.get(k, AOP_LEVEL.get(k))
    for _ in range(20):
        l = rand_tree(rng, nlv, d - 1, cy)
        if nlv < 2 or not ends_not(l):
            break
    else:
        l = cy.leaf()
    r = rand_tree(rng, nlv + 1, d - 1, cy)
    if k == "or":
        return ("or", rng.choice(OR_SP), l, r)
    if k == "and":
        return ("and", rng.choice(AND_SP), l, r)
    if k == "cmp":
        op = "%" if rng.random() < 0.04 else rng.choice([o for o in CMP_ALL if o != "%"])
        return ("cmp", op, l, r)
    return ("ar", k, l, r)


def spelling_contexts(op):
    a, b, c = ("leaf", ("bind", "a")), ("leaf", ("int", "1")), ("leaf", ("verb", "'x'"))
    cm = ("cmp", op, a, b)
    return [
        cm,
        ("cmp", "=", cm, c),
        ("cmp", op, ("cmp", "=", a, b), c),
        ("and", "AND", c, cm),
        ("or", "||", cm, ("and", "&&", a, cm)),
        ("not", "!", cm),
        ("cmp", op, ("ar", "+", a, b), ("ar", "*", b, ("neg", a))),
        ("cmp", op, ("grp", cm), ("not", "NOT", ("cmp", op, b, c))),
    ]


FIXED = [
    # the shapes named in DESIGN.md 1.4 / 7 and a few lexical corner cases
    ("cmp", "=", ("leaf", ("bind", "a")), ("cmp", "%", ("leaf", ("int", "1")), ("leaf", ("int", "2")))),   # not wf (right child level 2): skipped
    ("cmp", "%", ("cmp", "=", ("leaf", ("bind", "a")), ("leaf", ("int", "1"))), ("leaf", ("int", "2"))),
    ("ar", "*", ("grp", ("ar", "+", ("leaf", ("bind", "a")), ("leaf", ("int", "1")))), ("grp", ("ar", "+", ("leaf", ("bind", "b")), ("leaf", ("int", "2"))))),
    ("ar", "/", ("leaf", ("int", "2")), ("grp", ("ar", "*", ("grp", ("leaf", ("int", "1"))), ("grp", ("leaf", ("int", "2")))))),
    ("ar", "+", ("func", "length", [("bind", "a")]), ("func", "length", [("bind", "b")])),
    ("neg", ("neg", ("leaf", ("bind", "a")))),
    ("neg", ("leaf", ("int", "-5"))),
    ("neg", ("leaf", ("int", "5"))),
    ("pos", ("leaf", ("bind", "a"))),
    ("cmp", "IN", ("leaf", ("bind", "a")), ("leaf", ("list", [("b", "a"), ("b", "b")]))),
    ("cmp", "=", ("leaf", ("bind", "a")), ("not", "NOT", ("cmp", "=", ("leaf", ("bind", "b")), ("leaf", ("bind", "c"))))),
    ("ar", "+", ("leaf", ("bind", "a")), ("not", "NOT", ("ar", "+", ("leaf", ("bind", "b")), ("leaf", ("bind", "c"))))),
    ("ar", "^", ("ar", "^", ("leaf", ("int", "2")), ("leaf", ("int", "3"))), ("leaf", ("int", "4"))),
    ("grp", ("grp", ("ar", "+", ("leaf", ("bind", "a")), ("leaf", ("int", "1"))))),
]


# ------------------------------------------------------------------ implementation side
class Impl:
    def __init__(self):
        from mappyfile.parser import Parser
        from mappyfile.transformer import MapfileToDict
        self.p = Parser()
        self.m = MapfileToDict()

    def loads1(self, text):
        """What mappyfile.loads does, with the worker objects reused (loads builds them per call)."""
        return self.m.transform(self.p.parse(text))

    def stored(self, text, key):
        try:
            d = self.loads1(text)
            return ("ok", d[key])
        except Exception as ex:
            return ("err", type(ex).__name__)


def real_loads(text):
    import mappyfile
    return mappyfile.loads(text)


# ------------------------------------------------------------------ independent oracle
WORD_OPS = {"AND": "AND", "OR": "OR", "NOT": "NOT", "IN": None, "EQ": None, "NE": None, "LT": None, "LE": None,
            "GT": None, "GE": None, "LIKE": None}
SYMS = ["&&", "||", "!=", "==", "=*", "<=", ">=", "~*", "=", "<", ">", "~", "!", "+", "-", "*", "/", "^", "%"]
NUM_RE = re.compile(r"(\d+\.\d*|\.\d+|\d+)([eE][+-]?\d+)?")
WORD_RE = re.compile(r"[A-Za-z_][A-Za-z0-9_]*")


class TokErr(Exception):
    pass


def tokenise(s):
    """Own tokeniser for expression text. Tokens: ('(',), (')',), (',',), ('val', text), ('num', text),
    ('bool', text), ('name', text), ('op', text)."""
    out = []
    i, n = 0, len(s)

    def operand_pos():
        return (not out) or out[-1][0] in ("(", ",", "op")

    while i < n:
        c = s[i]
        if c in " \t\r\n\f":
            i += 1
            continue
        if c in "(),":
            out.append((c,))
            i += 1
            continue
        if c == "[":
            j = s.find("]", i)
            if j < 0:
                raise TokErr("unterminated [")
            out.append(("val", s[i:j + 1]))
            i = j + 1
            continue
        if c == "{":
            j = s.find("}", i)
            if j < 0:
                raise TokErr("unterminated {")
            out.append(("val", s[i:j + 1]))
            i = j + 1
            continue
        if c in "'\"`":
            j = i + 1
            while j < n and s[j] != c:
                if c == '"' and s[j] == "\\" and j + 1 < n and s[j + 1] == '"':
                    j += 1
                j += 1
            if j >= n:
                raise TokErr("unterminated string")
            j += 1
            if j < n and s[j] == "i" and (j + 1 >= n or not (s[j + 1].isalnum() or s[j + 1] == "_")):
                j += 1
            out.append(("val", s[i:j]))
            i = j
            continue
        if c == "/" and operand_pos():
            j = s.find("/", i + 1)
            if j < 0:
                raise TokErr("unterminated regex")
            j += 1
            if j < n and s[j] == "i":
                j += 1
            out.append(("val", s[i:j]))
            i = j
            continue
        if c == "%" and operand_pos():
            j = s.find("%", i + 1)
            if j < 0:
                raise TokErr("unterminated runtime var")
            out.append(("val", s[i:j + 1]))
            i = j + 1
            continue
        m = NUM_RE.match(s, i)
        if m and operand_pos():
            out.append(("num", m.group(0)))
            i = m.end()
            continue
        m = WORD_RE.match(s, i)
        if m:
            w = m.group(0)
            i = m.end()
            if w.upper() in WORD_OPS:
                out.append(("op", w))
            elif w.upper() in ("TRUE", "FALSE"):
                out.append(("bool", w))
            else:
                out.append(("name", w))
            continue
        for sy in SYMS:
            if s.startswith(sy, i):
                out.append(("op", sy))
                i += len(sy)
                break
        else:
            raise TokErr("bad character %r at %d" % (c, i))
    return out


def classify(op):
    """MapServer operator table of the property text."""
    u = op.upper()
    if u in ("OR", "||"):
        return ("or", "OR")
    if u in ("AND", "&&"):
        return ("and", "AND")
    if u in ("NOT", "!"):
        return ("not", "NOT")
    if u in ("=", "==", "!=", "<", "<=", ">", ">=", "~", "~*", "=*", "IN", "EQ", "NE", "LT", "LE", "GT", "GE", "LIKE"):
        return ("cmp", op)
    if op in ("+", "-"):
        return ("sum", op)
    if op in ("*", "/", "%", "^"):
        return ("prod", op)
    raise TokErr("unknown operator %r" % op)


def num_value(text):
    return Decimal(text)


def sequence(toks):
    """Operands and operators in order: parentheses dropped, AND/OR/NOT spelling normalised, numerals by value,
    prefix plus dropped, a prefix minus folded into a directly following numeral."""
    flat = [t for t in toks if t[0] not in ("(", ")")]
    # pass 1: classify, drop prefix plus
    items = []
    prefix = True
    for t in flat:
        if t[0] == "op":
            kind, sp = classify(t[1])
            if kind == "sum" and prefix:
                if t[1] == "-":
                    items.append(("neg",))
                continue
            items.append((kind, sp))
            prefix = True
        elif t[0] == ",":
            items.append((",",))
            prefix = True
        elif t[0] == "num":
            items.append(("num", num_value(t[1])))
            prefix = False
        elif t[0] == "bool":
            items.append(("bool", t[1].upper()))
            prefix = False
        elif t[0] == "name":
            items.append(t)
            prefix = True
        else:
            items.append(t)
            prefix = False
    # pass 2: fold a prefix minus into the numeral that follows it
    out = []
    for x in items:
        if x[0] == "num" and x[1] == 0:
            while out and out[-1] == ("neg",):      # -0 = 0
                out.pop()
            out.append(("num", x[1] * 0))
        elif x[0] == "num" and out and out[-1] == ("neg",):
            out.pop()
            out.append(("num", -x[1] + 0))
        elif x[0] == "num":
            out.append(("num", x[1] + 0))
        else:
            out.append(x)
    return out


def nest(toks):
    """Flat tokens -> nested item list; ('grp', items); function call ('fun', name, [items per arg])."""
    pos = [0]

    def go(close):
        items = []
        while pos[0] < len(toks):
            t = toks[pos[0]]
            if t[0] == ")":
                if not close:
                    raise TokErr("unbalanced )")
                pos[0] += 1
                return items
            pos[0] += 1
            if t[0] == "(":
                g = go(True)
                if items and items[-1][0] == "name":
                    name = items.pop()[1]
                    args, cur = [], []
                    for x in g:
                        if x[0] == ",":
                            args.append(cur)
                            cur = []
                        else:
                            cur.append(x)
                    args.append(cur)
                    items.append(("fun", name, args))
                else:
                    items.append(("grp", g))
            else:
                items.append(t)
        if close:
            raise TokErr("unbalanced (")
        return items

    return go(False)


def read(items):
    """Precedence reader: OR < AND < NOT < comparisons < + - < * / % ^ < unary minus; groups opaque."""
    flat = []
    for it in items:
        if it[0] == "grp":
            flat.append(("done", read(it[1])))
        elif it[0] == "fun":
            flat.append(("done", ("fun", it[1], tuple(read(a) for a in it[2]))))
        elif it[0] == "num":
            v = num_value(it[1])
            flat.append(("done", ("num", (v + 0) if v != 0 else v * 0)))
        elif it[0] == "bool":
            flat.append(("done", ("bool", it[1].upper())))
        elif it[0] == "val":
            flat.append(("done", ("val", it[1])))
        elif it[0] == "op":
            flat.append(("op",) + classify(it[1]))
        else:
            raise TokErr("stray %r" % (it,))
    # mark prefix signs
    marked = []
    for x in flat:
        if x[0] == "op" and x[1] == "sum" and (not marked or marked[-1][0] == "op"):
            marked.append(("op", "pre", x[2]))
        else:
            marked.append(x)

    def chain(kind, sub, l):
        segs, ops, cur = [], [], []
        for x in l:
            if x[0] == "op" and x[1] == kind:
                segs.append(cur)
                ops.append(x[2])
                cur = []
            else:
                cur.append(x)
        segs.append(cur)
        acc = sub(segs[0])
        for o, s in zip(ops, segs[1:]):
            acc = ("bin", o, acc, sub(s))
        return acc

    def r_un(l):
        if len(l) == 1 and l[0][0] == "done":
            return l[0][1]
        if l and l[0][0] == "op" and l[0][1] == "pre":
            x = r_un(l[1:])
            if l[0][2] == "+":
                return x
            if x[0] == "num":
                return ("num", (-x[1] + 0) if x[1] != 0 else x[1] * 0)
            return ("neg", x)
        raise TokErr("cannot read operand %r" % (l,))

    def r_prod(l):
        return chain("prod", r_un, l)

    def r_sum(l):
        return chain("sum", r_prod, l)

    def r_cmp(l):
        return chain("cmp", r_sum, l)

    def r_not(l):
        for i, x in enumerate(l):
            if x[0] == "op" and x[1] == "not":
                return r_cmp(l[:i] + [("done", ("not", r_not(l[i + 1:])))])
        return r_cmp(l)

    def r_and(l):
        return chain("and", r_not, l)

    return chain("or", r_and, marked)


def known_shape(t):
    """Independent classification of the source tree against the known defects."""
    def first_paren(x):
        k = x[0]
        if k == "pos":
            return first_paren(x[1])
        if k in ("grp", "func"):
            return True
        if k in ("ar", "cmp", "and", "or"):
            return k != "ar" or first_paren(x[2])
        return False

    def last_paren(x):
        k = x[0]
        if k in ("grp", "func", "cmp", "and", "or"):
            return True
        if k == "ar":
            return last_paren(x[3])
        if k == "not":
            return last_paren(x[2])
        if k in ("neg", "pos"):
            return last_paren(x[1])
        return False

    found = set()

    def walk(x):
        k = x[0]
        if k == "grp":
            y = x[1]
            while y[0] == "pos":
                y = y[1]
            if y[0] == "ar" and first_paren(y) and last_paren(y):
                found.add("expr:textual-in-parenthesis")
        if k == "cmp" and x[1] == "%":
            found.add("expr:percent-as-comparison")
        if k == "neg":
            y = x[1]
            while y[0] == "pos":
                y = y[1]
            if y[0] in ("neg", "not") or (y[0] == "leaf" and (y[1][0] == "bool" or (y[1][0] in ("int", "float") and float(y[1][1]) < 0))):
                found.add("expr:neg-glued")
            if y[0] == "leaf" and y[1][0] == "int" and int(y[1][1]) == 0:
                found.add("expr:neg-zero-literal")
        if k == "leaf" and x[1][0] == "list" and any(e[0] == "b" for e in x[1][1]):
            found.add("expr:list-binding-brackets")
        if k == "func":
            for p in x[2]:
                if p[0] == "list" and any(e[0] == "b" for e in p[1]):
                    found.add("expr:list-binding-brackets")
        for c in children(x):
            walk(c)

    walk(t)
    return found


def shape(t):
    k = t[0]
    if k in ("leaf", "func"):
        return "f" if k == "func" else "x"
    if k == "ar":
        return "%s(%s,%s)" % (t[1], shape(t[2]), shape(t[3]))
    if k == "cmp":
        return "cmp%s(%s,%s)" % ("%" if t[1] == "%" else "", shape(t[2]), shape(t[3]))
    if k in ("and", "or"):
        return "%s(%s,%s)" % (k, shape(t[2]), shape(t[3]))
    if k == "not":
        return "not(%s)" % shape(t[2])
    return "%s(%s)" % (k, shape(t[1]))


def hunt_one(impl, t, pos, stored_status=None):
    """The property against the implementation for one tree. Returns None or (kind, detail)."""
    tmpl, key = pos
    src = render(t)
    st = stored_status or impl.stored(tmpl % src, key)
    if st[0] != "ok":
        return ("source-rejected", "source %r is rejected with %s" % (src, st[1]))
    stored = st[1]
    if not isinstance(stored, str):
        return ("not-a-string", "stored value %r is not a string" % (stored,))
    try:
        ts, tn = tokenise(src), tokenise(stored)
        if sequence(ts) != sequence(tn):
            return ("leaves", "operands/operators differ: source %r stored %r" % (src, stored))
        if any(x[0] == "op" and x[1] in ("&&", "||", "!") for x in tn):
            return ("spelling", "stored %r keeps a symbolic logical operator" % stored)
        if any(x[0] == "op" and x[1].upper() in ("AND", "OR", "NOT") and x[1] != x[1].upper() for x in tn):
            return ("spelling", "stored %r does not spell AND/OR/NOT in upper case" % stored)
        if read(nest(ts)) != read(nest(tn)):
            return ("regroup", "source %r reads as %r, stored %r reads as %r" % (src, read(nest(ts)), stored, read(nest(tn))))
    except TokErr as ex:
        return ("oracle-cannot-read", "oracle cannot read source %r / stored %r: %s" % (src, stored, ex))
    st2 = impl.stored(tmpl % stored, key)
    if st2 != ("ok", stored):
        return ("reparse", "stored %r re-parses to %r (source %r)" % (stored, st2, src))
    return None


def shrink_tree(t, fails, budget=300):
    """Greedy: replace sub-trees by a child or a leaf while fails() stays true and the tree stays well-formed."""
    leafs = [("leaf", ("bind", "z")), ("leaf", ("int", "1"))]

    def variants(x):
        for c in children(x):
            yield c
        if x[0] not in ("leaf",):
            for lf in leafs:
                yield lf
        k = x[0]
        if k in ("grp", "neg", "pos"):
            for v in variants(x[1]):
                yield (k, v)
        elif k == "not":
            for v in variants(x[2]):
                yield (k, x[1], v)
        elif k in ("ar", "cmp", "and", "or"):
            for v in variants(x[2]):
                yield (k, x[1], v, x[3])
            for v in variants(x[3]):
                yield (k, x[1], x[2], v)

    steps = 0
    improved = True
    top_group = t[0] == "grp"
    while improved and steps < budget:
        improved = False
        cands = sorted(set(map(repr, variants(t))), key=len)
        if top_group:
            cands = [rc for rc in cands if rc.startswith("('grp'")]
        for rc in cands:
            c = eval(rc)
            steps += 1
            if steps > budget:
                break
            if n_ops(c) + len(repr(c)) / 1000.0 >= n_ops(t) + len(repr(t)) / 1000.0:
                continue
            if wf(c) and fails(c):
                t = c
                improved = True
                break
    return t


# ------------------------------------------------------------------ builder / literal / format observation points
def builder_cases(rng, n):
    alphabet = ["(", ")", " ", "a", "[x]", "1", "\t", "'q'", "-", "NOT", "=", " ", "\n", "(a) + (b)", "( x )"]

    def rs():
        return "".join(rng.choice(alphabet) for _ in range(rng.randrange(0, 5)))
    cases = []
    for _ in range(n):
        code = rng.randrange(0, 15)
        k = {0: 3, 1: 2, 2: 2, 3: 1, 4: rng.choice([1, 1, 2]), 5: 2, 6: 2, 7: 2, 8: 2, 9: 2, 10: 1, 11: rng.randrange(1, 4), 12: 2, 13: 1, 14: rng.randrange(1, 4)}[code]
        cases.append((code, [rs() for _ in range(k)]))
    for s in ["(a)", " (a) ", "(a) + (b)", "a)", "(a", "", "()", "\t(a)\n", " (a) ", "\x1f(a)", "x(a)", "(a)x", "((a) * (b))"]:
        cases.append((4, [s]))
    return cases


def impl_builder(code, a):
    from lark.lexer import Token
    from mappyfile.transformer import MapfileTransformer
    T = MapfileTransformer()
    tk = [Token("X", s) for s in a]
    if code == 0:
        return T.comparison(tk).value
    if code == 1:
        return T.and_test(tk).value
    if code == 2:
        return T.or_test(tk).value
    if code == 3:
        return T.not_expression(tk).value
    if code == 4:
        return T.expression(tk).value
    if code in (5, 6, 7, 8, 9):
        return [T.add, T.sub, T.mul, T.div, T.power][code - 5](tk).value
    if code == 10:
        return T.neg(tk).value
    if code == 11:
        return T.func_params(tk)
    if code == 12:
        return T.func_call([tk[0], a[1]]).value
    if code == 13:
        return T.attr_bind(tk).value
    return T.list(tk).value


def literal_cases(rng, n):
    cases = [(0, s) for s in ["0", "7", "007", "+5", "-5", "-0", "+0", "123456789012345678901234567890", "-000"]]
    cases += [(1, s) for s in ["1.50", ".5", "5.", "1e3", "1E5", "1.5e10", "1e22", "1e16", "1e15", "9999999999999998.0", "0.0001", "0.00001",
                               "1.5e-7", "12345.678e-3", "0.0", "0.10", "00.5", "+2.5", "-2.5", "100.0", "1e-5", "123456789.012345", "1e+2", "-1.25E-10", "0.000123", "1234567.0e10"]]
    for _ in range(n):
        if rng.random() < 0.3:
            cases.append((0, rng.choice(["", "+", "-"]) + "".join(rng.choice("0123456789") for _ in range(rng.randrange(1, 20)))))
        else:
            nd = rng.randrange(1, 15)
            digs = "".join(rng.choice("0123456789") for _ in range(nd))
            cut = rng.randrange(0, nd + 1)
            ip, fp = digs[:cut], digs[cut:]
            if not ip and not fp:
                ip = "0"
            s = rng.choice(["", "+", "-"]) + ip + "." + fp
            if ip == "" and fp == "":
                s = "0.0"
            if rng.random() < 0.5:
                s += rng.choice("eE") + rng.choice(["", "+", "-"]) + str(rng.randrange(0, 40))
            if float(s) == 0 and s.startswith("-"):
                s = s[1:]
            cases.append((1, s))
    return cases


FORMAT_SLOTS = [("class", "expression"), ("layer", "filter"), ("class", "text"), ("style", "geomtransform"), ("cluster", "group"),
                ("cluster", "filter"), ("label", "expression"), ("label", "text"), ("layer", "geomtransform"), ("class", "name"),
                ("layer", "status"), ("layer", "classitem"), ("join", "type"), ("label", "font"), ("layer", "mask")]
FORMAT_VALUES = ["( [a] = 1 )", "([a] + 1)", " (x) ", "(a) + (b)", "NOT ( [a] = 1 )", "NOT x", "{a,b}", "[name]", "/re/", "/re/i", "'x'i", '"x"i',
                 "plain", "two words", "end", "bbox", "ON", "off", '"q"', "'q'", 'a"b', '"a\\"b"', '"a"b"', "", "(", ")", "(\"x\" = 'y')", "centroid"]


# ------------------------------------------------------------------ run
def gen_cases(ctx):
    rng = ctx.rng
    cy = Cycler(rng)
    trees = []
    cpath = os.path.join(ROOT, "corpus", "C10.json")
    if os.path.exists(cpath):
        for c in json.load(open(cpath)):
            trees.append(("corpus", eval(c["tree"])))
    for t in FIXED:
        if wf(t):
            trees.append(("fixed", ("grp", t)))
    for op in CMP_ALL:
        for t in spelling_contexts(op):
            if wf(t):
                trees.append(("spelling", ("grp", t)))
    for sp in AND_SP:
        for so in OR_SP:
            for sn in NOT_SP:
                a, b, c = cy.leaf(), cy.leaf(), cy.leaf()
                trees.append(("spelling", ("grp", ("or", so, ("and", sp, a, ("not", sn, b)), c))))
    for L in SPECIAL_LEAVES + LISTBIND_LEAVES + [x for x in LEAVES]:
        trees.append(("operand", ("grp", ("cmp", "=", ("leaf", ("bind", "a")), ("leaf", L)))))
        trees.append(("operand", ("grp", ("leaf", L))))
    for f in FUNCS:
        trees.append(("operand", ("grp", ("cmp", ">", f, ("leaf", ("int", "3"))))))
        trees.append(("operand", ("grp", f)))
    nmax = ctx.budget(3, 4)
    n_exh = 0
    for n in range(0, nmax + 1):
        shp = shapes(n)
        for s in shp:
            # the stored value of an expression-typed key is the outermost group
            trees.append(("exhaustive", ("grp", instantiate(s, cy))))
            n_exh += 1
    n_rand = ctx.budget(6000, 40000)
    for _ in range(n_rand):
        d = rng.choice([2, 3, 4, 5, 6, 8])
        t = ("grp", rand_tree(rng, 0, d, cy))
        trees.append(("random", t))
    ctx.count("exhaustive_trees", n_exh)
    ctx.count("random_trees", n_rand)
    return trees


def run(ctx):
    rng = ctx.rng
    impl = Impl()
    trees = gen_cases(ctx)
    # ---------------- model
    mouts = None
    if ctx.model_ok:
        mouts = run_model("expr", [(10, enc_tree(t)) for _, t in trees])
    n_bad = 0
    n_src_bad = 0
    n_guard_surprise = 0
    hist = {}
    viol_seen = {}
    batch_ok = {i: [] for i in range(len(POSITIONS))}
    for idx, (origin, t) in enumerate(trees):
        pos_i = idx % len(POSITIONS)
        pos = POSITIONS[pos_i]
        src = render(t, tight=(idx % 7 == 3))
        st = impl.stored(pos[0] % src, pos[1])
        hist[origin] = hist.get(origin, 0) + 1
        ctx.count("depth_%d" % min(depth(t), 10))
        ctx.note_case(pos[1] + ":" + src, nontrivial=n_ops(t) >= 3)
        model = None
        if mouts is not None:
            rd = codec.Reader(mouts[idx])
            if rd.z() != 0:
                n_bad += 1
                ctx.violation("correspondence:O-expr-decode", "model cannot decode tree", {"tree": repr(t)}, no_input=True)
                continue
            model = dict(norm=rd.str(), source=rd.str(), flat=rd.str())
            for g in ("wf", "percent_free", "paren_safe", "neg_safe", "lists_ok"):
                model[g] = rd.z() != 0
            model["re_source"] = rd.str()
            model["re_norm"] = rd.str()
            model["re_wf"] = rd.z() != 0
            if model["source"] != render(t) or not model["wf"] or model["flat"] != model["norm"]:
                n_src_bad += 1
                ctx.violation("correspondence:O-expr-source", "Coq source/wf/flat differs from the harness renderer",
                              {"tree": repr(t), "model": model, "render": render(t)}, no_input=True)
        bad = hunt_one(impl, t, pos, st)
        if model is not None:
            agrees = st == ("ok", model["norm"])
            if not agrees:
                n_bad += 1
            all_guards = model["percent_free"] and model["paren_safe"] and model["neg_safe"] and model["lists_ok"]
            if all_guards and bad is not None:
                n_guard_surprise += 1
            if all_guards and model["re_wf"] and agrees and bad is None and idx % 3 == 0:
                # the tree of the stored string (reparse_fixed_point's T'): its source is the stored string's tokens
                st3 = impl.stored(pos[0] % model["re_source"], pos[1])
                ctx.count("renorm_checked")
                if st3 != ("ok", model["re_norm"]) or model["re_norm"] != model["norm"]:
                    n_bad += 1
                    ctx.violation("correspondence:O-expr-renorm", "renorm tree: implementation %r, model %r, norm %r" % (st3, model["re_norm"], model["norm"]),
                                  {"tree": repr(t), "re_source": model["re_source"]}, no_input=True)
            if not agrees and bad is None:
                ctx.violation("correspondence:O-expr", "model norm %r, implementation %r for source %r (property still holds here)" % (model["norm"], st, src),
                              {"tree": repr(t), "source": src, "position": pos[0]}, no_input=True)
        if bad is None and st[0] == "ok":
            batch_ok[pos_i].append((src, st[1]))
        if bad is not None:
            kn = known_shape(t)

            def fails_plain(c, _pos=pos):
                return hunt_one(impl, c, _pos) is not None

            def fails_unknown(c, _pos=pos):
                return hunt_one(impl, c, _pos) is not None and not known_shape(c)
            if not kn:
                viol_seen["unknown"] = viol_seen.get("unknown", 0) + 1
                if viol_seen["unknown"] > 6:
                    ctx.count("further_unlisted_failures")
                    continue
                small = shrink_tree(t, fails_unknown)
            else:
                key = (tuple(sorted(kn)), bad[0])
                if key in viol_seen and viol_seen[key] >= 3:
                    ctx.count("known_shape_failures")
                    continue
                viol_seen[key] = viol_seen.get(key, 0) + 1
                small = shrink_tree(t, fails_plain)
            b2 = hunt_one(impl, small, pos) or bad
            kn2 = known_shape(small)
            # a minimal tree that still needs several listed defect shapes at once is reported under each of them
            fps = sorted(kn2) if kn2 else ["expr:%s:%s" % (b2[0], shape(small))]
            for fp in fps:
                ctx.violation(fp, "%s: %s" % (b2[0], b2[1]),
                              {"tree": repr(small), "source": render(small), "position": pos[0], "kind": b2[0],
                               "original_source": src, "model_norm": model["norm"] if model else None})
    ctx.coverage["origin_histogram"] = hist
    if mouts is not None:
        ctx.obligation("correspondence O-expr (model norm = stored string of mappyfile for every generated tree and position)", n_bad == 0,
                       "%d trees, %d disagreements" % (len(trees), n_bad))
        ctx.obligation("Coq source renderer = harness renderer, every generated tree is wf, norm = flat(norm_pieces)", n_src_bad == 0,
                       "%d mismatches" % n_src_bad)
        ctx.obligation("model guards predict the hunter: no violation on trees satisfying percent_free, paren_safe, neg_safe, lists_ok", n_guard_surprise == 0,
                       "%d surprises" % n_guard_surprise)
    ctx.count("traces_validated_against_impl", len(trees))

    # ---------------- whole documents through the public API: loads, dumps, loads
    import mappyfile
    n_docs = 0
    for pos_i, items in batch_ok.items():
        tmpl, key = POSITIONS[pos_i]
        step = 400
        for off in range(0, len(items), step):
            chunk = items[off:off + step]
            if len(chunk) < 2:
                continue
            doc = "\n".join(tmpl % s for s, _ in chunk)
            try:
                ds = mappyfile.loads(doc)
                got = [d[key] for d in ds]
                out = mappyfile.dumps(ds)
                ds2 = mappyfile.loads(out)
                got2 = [d[key] for d in ds2]
            except Exception as ex:
                got, got2 = ("exception", repr(ex)[:300]), None
            n_docs += 1
            want = [v for _, v in chunk]
            if got != want or got2 != want:
                j = next((i for i in range(len(want)) if not (isinstance(got, list) and isinstance(got2, list) and i < len(got) and i < len(got2) and got[i] == want[i] and got2[i] == want[i])), 0)
                ctx.violation("expr:loads-dumps-loads:" + key,
                              "mappyfile.loads / dumps / loads of a document of %d expressions does not keep the stored strings (first difference at %d: %r)" % (len(chunk), j, chunk[j]),
                              {"document": tmpl % chunk[j][0], "expected": chunk[j][1]})
    ctx.count("documents_loads_dumps_loads", n_docs)

    # ---------------- builders, literals, format_value
    if ctx.model_ok:
        bc = builder_cases(rng, ctx.budget(1500, 15000))
        outs = run_model("expr", [(11, [c] + [len(a)] + sum((codec.enc_str(s) for s in a), [])) for c, a in bc])
        nb = 0
        for (c, a), o in zip(bc, outs):
            try:
                real = impl_builder(c, list(a))
            except Exception as ex:
                real = "EXC " + type(ex).__name__
            m = codec.Reader(o).str() if o and o[0] >= 0 else None
            if m != real:
                nb += 1
                ctx.violation("correspondence:O-builder", "builder %d on %r: model %r implementation %r" % (c, a, m, real), {"code": c, "args": a}, no_input=True)
        ctx.obligation("correspondence O-builder (each transformer callback = its Coq builder on arbitrary strings)", nb == 0, "%d cases, %d disagreements" % (len(bc), nb))
        lc = literal_cases(rng, ctx.budget(1500, 20000))
        outs = run_model("expr", [(12, [k] + codec.enc_str(s)) for k, s in lc])
        nl = 0
        for (k, s), o in zip(lc, outs):
            real = str(int(s)) if k == 0 else str(float(s))
            rd = codec.Reader(o)
            m = rd.str()
            ok = m == real
            if k == 1 and ok:
                ok = (rd.z(), rd.z()) == codec.float_me(float(s))
            if not ok:
                nl += 1
                ctx.violation("correspondence:O-literal", "literal %r: model %r python %r" % (s, m, real), {"kind": k, "text": s}, no_input=True)
        ctx.obligation("correspondence O-literal (str(int(tok)), str(float(tok)) = py_int_repr/py_float_repr of int_of_lit/float_of_lit)", nl == 0, "%d cases, %d disagreements" % (len(lc), nl))
        from mappyfile.pprint import PrettyPrinter
        pp = PrettyPrinter()
        fc = [(ty, at, v) for ty, at in FORMAT_SLOTS for v in FORMAT_VALUES]
        fc += [(ty, at, s) for (ty, at) in FORMAT_SLOTS[:9] for _, s in sum((batch_ok[i][:40] for i in batch_ok), [])]
        outs = run_model("expr", [(13, codec.enc_str(ty) + codec.enc_str(at) + codec.enc_str(v)) for ty, at, v in fc])
        nf = 0
        n_par = 0
        for (ty, at, v), o in zip(fc, outs):
            props = pp.get_attribute_properties(ty, at)
            if not props:
                continue
            try:
                real = pp.format_value(at, props, v)
            except Exception as ex:
                real = "EXC " + type(ex).__name__
            m = codec.Reader(o[1:]).str() if o and o[0] == 0 else None
            if m != real:
                nf += 1
                ctx.violation("correspondence:O-fmt-expr", "format_value(%s.%s, %r): model %r implementation %r" % (ty, at, v, m, real), {"type": ty, "attr": at, "value": v}, no_input=True)
            # hunter clause: parenthesised strings pass through unchanged in expression-capable slots
            if (ty, at) in FORMAT_SLOTS[:9] and v.strip().startswith("(") and v.strip().endswith(")"):
                n_par += 1
                if real != v:
                    ctx.violation("expr:printer-changes-parenthesised:%s.%s" % (ty, at), "format_value changes the parenthesised value %r to %r" % (v, real),
                                  {"type": ty, "attr": at, "value": v})
        ctx.count("format_value_parenthesised_checks", n_par)
        ctx.obligation("correspondence O-fmt-expr (format_value on str values = format_value_str over Gen/Schemas)", nf == 0, "%d cases, %d disagreements" % (len(fc), nf))
    ctx.sample({"source": render(trees[-1][1]), "stored": impl.stored(POSITIONS[0][0] % render(trees[-1][1]), "expression")[1]})
    ctx.sample({"shapes_per_size": {n: len(shapes(n)) for n in range(0, nmax_for_sample(ctx) + 1)}})


def nmax_for_sample(ctx):
    return ctx.budget(3, 4)


def replay(ctx, body):
    r = body["replay"]
    impl = Impl()
    if "tree" in r:
        t = eval(r["tree"])
        pos = next((p for p in POSITIONS if p[0] == r.get("position")), POSITIONS[0])
        bad = hunt_one(impl, t, pos)
        print("replay: source %r -> %r" % (render(t), impl.stored(pos[0] % render(t), pos[1])))
        print("replay:", "VIOLATES: %s %s" % bad if bad else "holds")
        return 1 if bad else 0
    if "document" in r:
        import mappyfile
        d = mappyfile.loads(r["document"])
        out = mappyfile.dumps(d)
        try:
            d2 = mappyfile.loads(out)
        except Exception as ex:
            d2 = repr(ex)
        print("replay:", d, out, d2)
        return 0 if d == d2 else 1
    print("replay: nothing to replay (obligation without failing input)")
    return 1
