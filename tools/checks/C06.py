"""C06: formatting options never change content.

Hunter: for every option combination, loading the formatted text gives the same
dictionary as loading the default formatting; separate_complex_types may only
move block-valued keys after the simple keys, keeping relative order.
Runner: printer model vs real printer under the same option sets (text and the
dictionary after the call)."""
import copy, itertools
from checklib import codec
from gens import docs, sweep, harness, rt

MANIFEST = dict(
    technique="Coq theorem on repeated move_to_end (stable partition, induction over the key list) + kernel-checked option-independence evaluation on the slot product x a covering option family through the composed models + extracted-model correspondence under options",
    text=("Coq (Props/C06.v): [universal] the loop of OrderedDict.move_to_end calls that implements separate_complex_types yields exactly the non-moved items in their order followed by the moved items in their order (for every key predicate and every duplicate-free dictionary); "
          "[finite] for every root-level document of the slot product and each of six option sets covering every value of every option, loading the formatted text equals loading the default formatting - evaluated by the kernel through parser and printer models. "
          "[universal, Proofs/PrintU*.v] the printer factors through a layout-free abstract document: success, the exception raised and the dictionary left behind do not depend on indent, spacer, newlinechar, end_comment or align_values; "
          "the content an independent reader (Spec/Reader.v) finds in the text is the same under any two layouts and, up to the quote character, under either quote - for every dictionary whose printed pieces are complete token sequences and layouts of blanks with a line-breaking newlinechar; "
          "each guard comes with a refutation witness (newlinechar ' ' with end_comment; a key whose upper-casing is longer than the key glued to its value by align_values). "
          "PARTIAL: composing the reader's tokens with the parser model for all dictionaries is not a theorem; the hunter runs option sets drawn from the full 9x2x2x3x2x2x2 product (all of it in the thorough tier on a document sample) on corpus files and generated documents, "
          "and checks that only block-valued keys move; the extracted printer is compared with the real one under the same options, including the dictionary after the call."),
    design_ref="DESIGN.md 7/C06",
    note="C06: documents whose strings contain the chosen quote character are outside the guarantee; newlinechar ' ' only for documents without comments.")

COMPONENTS = ["parser", "printer"]
TARGETS = []
RULE = "corpus files and generated documents x option tuples (quick: 10 random tuples per document covering every option value; thorough: the full product on a sample); non-trivial = at least 3 keywords"

INDENTS = list(range(0, 9))


def all_option_tuples():
    for ind, sp, q, nl, ec, al, sc in itertools.product(INDENTS, [" ", "\t"], ['"', "'"], ["\n", "\r\n", " "], [False, True], [False, True], [False, True]):
        yield dict(indent=ind, spacer=sp, quote=q, newlinechar=nl, end_comment=ec, align_values=al, separate_complex_types=sc)


BLOCK_KEYS = ("points", "pattern", "projection", "metadata", "validation", "values", "connectionoptions")


def is_block_value(v, k=None):
    """written as KEY ... END: nested objects, lists of objects, key-value blocks, POINTS / PATTERN / PROJECTION"""
    if k == "config":
        return False        # CONFIG entries are keyword lines, not a KEY ... END block
    return isinstance(v, dict) or (isinstance(v, list) and v and all(isinstance(x, dict) for x in v)) or (k in BLOCK_KEYS and isinstance(v, list))


def same_modulo_separation(a, b, path="root"):
    """b (loaded from separate_complex_types output) vs a (default): same content, and in every object only
    block-valued keys may have moved behind the simple keys, relative order kept.  -> None or (path, what)"""
    if isinstance(a, dict) and isinstance(b, dict):
        if sorted(a.keys()) != sorted(b.keys()):
            return (path, "keys differ: %r vs %r" % (list(a.keys()), list(b.keys())))
        simple_a = [k for k in a if not is_block_value(a[k], k)]
        block_a = [k for k in a if is_block_value(a[k], k)]
        kb = list(b.keys())
        if kb != list(a.keys()):
            moved = [k for k in kb if kb.index(k) != list(a.keys()).index(k)]
            kb_simple = [k for k in kb if k in simple_a]
            if kb_simple != simple_a:
                j = next(i for i, (x, y) in enumerate(zip(simple_a, kb_simple)) if x != y)
                return (path + "/" + simple_a[j], "a non-block key was moved: %r -> %r" % (list(a.keys()), kb))
            if [k for k in kb if k in block_a] != block_a:
                return (path, "block keys reordered: %r" % kb)
            # a simple (non-block) key that lost its place relative to an earlier block key was moved
            for k in simple_a:
                before_a = set(list(a.keys())[:list(a.keys()).index(k)])
                before_b = set(kb[:kb.index(k)])
                if not before_b <= before_a | set(simple_a):
                    return (path + "/" + k, "a non-block key was moved: %r -> %r" % (list(a.keys()), kb))
        for k in a:
            r = same_modulo_separation(a[k], b[k], path + "/" + k)
            if r:
                return r
        return None
    if isinstance(a, list) and isinstance(b, list):
        if len(a) != len(b):
            return (path, "list length differs")
        for i, (x, y) in enumerate(zip(a, b)):
            r = same_modulo_separation(x, y, path + "[%d]" % i)
            if r:
                return r
        return None
    return None if sweep.same(a, b) else (path, "%r vs %r" % (a, b))


def run(ctx):
    import mappyfile
    from mappyfile.pprint import PrettyPrinter
    rng = ctx.rng
    corp = harness.corpus_files()
    rng.shuffle(corp)
    texts = [t for _, t in corp[:ctx.budget(30, 200)] if len(t) < ctx.budget(8000, 40000)]
    for doc in harness.gen_documents(rng, ctx.budget(80, 600), max_depth=4, pool="parseable"):
        texts.append(docs.render(doc, docs.Layout())[0])
    product = list(all_option_tuples())
    seen_values = set()
    model_cases = []
    default_pp = PrettyPrinter()
    def hunt_one(d, t, base, o):
        """the property on one (dictionary, option tuple): load the formatted text, compare with the default formatting"""
        dd = copy.deepcopy(d)
        try:
            pp = PrettyPrinter(**o)
            t1 = pp.pprint(dd) if rng.random() < 0.9 else mappyfile.dumps(dd, **o)
        except Exception as ex:
            ctx.violation("dumps-raises-under-options:" + type(ex).__name__, "dumps raises %s under %r" % (type(ex).__name__, o), {"text": t, "options": o})
            return
        try:
            got = rt.plain_all(sweep.fast_loads(t1))
        except Exception as ex:
            optname = next((k for k, v in sorted(o.items()) if v != PrettyPrinterDefaults.get(k)), "?")
            ctx.violation("formatted-text-rejected:" + optname, "text formatted under %r is rejected: %s" % (o, str(ex)[:120]), {"text": t, "options": o, "formatted": t1})
            return
        if o["separate_complex_types"]:
            r = same_modulo_separation(base, got)
            if r:
                what = r[1]
                fp = "separate:moves-non-block:" + r[0].split("/")[-1].split("[")[0] if "non-block key was moved" in what else "separate:" + what.split(":")[0]
                ctx.violation(fp, "separate_complex_types changed more than the position of block-valued keys at %s: %s" % r, {"text": t, "options": o, "formatted": t1})
        elif not sweep.same(got, base):
            diff = rt.first_diff(base, got)
            optname = next((k for k, v in sorted(o.items()) if v != PrettyPrinterDefaults.get(k)), "?")
            ctx.violation("options-change-content:" + optname, "loading text formatted under %r differs from the default formatting: %r" % (o, diff), {"text": t, "options": o, "formatted": t1})

    for i, t in enumerate(texts):
        try:
            d = sweep.fast_loads(t)
            t0 = default_pp.pprint(copy.deepcopy(d))
            base = rt.plain_all(sweep.fast_loads(t0))
        except Exception:
            continue
        if rt.first_diff(rt.plain_all(d), base):
            continue                 # C01's known findings
        full = ctx.tier == "thorough" and i % 40 == 0
        tuples = product if full else [rng.choice(product) for _ in range(ctx.budget(10, 30))]
        has_quote = {q: bool(rt.excluded(d, q)) for q in ('"', "'")}
        for o in tuples:
            if has_quote[o["quote"]]:
                continue
            if o["newlinechar"] == " " and o["end_comment"]:
                continue             # a space as line break is only in the quantifier when no comments are emitted
            ctx.note_case((i, tuple(sorted(o.items()))), nontrivial=len(t.split()) > 6)
            for k, v in o.items():
                seen_values.add((k, v))
            hunt_one(d, t, base, o)
            if len(model_cases) < ctx.budget(150, 1500) and rng.random() < 0.3:
                model_cases.append((o, d, t, base))
    # ---- directed value shapes x both quotes (the quote option reaches every lexical class that is written quoted):
    # hex colours with 3 / 6 / 8 digits in either letter case, strings with escapes and apostrophes, bindings,
    # regexes, expressions with string operands, key-value blocks, repeated strings
    directed = ['STYLE COLORRANGE "#0000ffaa" "#FF0000CC" DATARANGE 0 1 END', 'STYLE COLORRANGE "#00f" "#ff0000" DATARANGE 0 1 END', 'MAP IMAGECOLOR "#ff00aa80" END',
                'LEGEND IMAGECOLOR "#FF00AACC" OUTLINECOLOR "#0f0" END', 'SCALEBAR COLOR "#ff00aacc" BACKGROUNDCOLOR "#abc" END', 'QUERYMAP COLOR "#ff00aacc" END',
                "MAP NAME \"it's\" SHAPEPATH 'say \"x\"' END", 'LAYER TYPE POINT FILTER ("[name]" = "x y") CLASSITEM "n" END',
                "LAYER TYPE POINT CLASS EXPRESSION /^a.b$/ END CLASS EXPRESSION 'abc' END END", 'MAP WEB METADATA "a b" "c d" \'e\' \'f\' END END END',
                'LAYER TYPE POINT PROCESSING "A=1 2" PROCESSING \'B=x\' END', 'MAP PROJECTION "init=epsg:4326" END CONFIG "K" "v w" END',
                # case-insensitive string comparisons keep their own quotes inside the dictionary value
                'LAYER TYPE POINT FILTER "aitkin"i END', 'LAYER TYPE POINT CLASS EXPRESSION "a b"i END CLASS EXPRESSION \'c\'i END END', "LAYER TYPE POINT FILTERITEM 'n' FILTER 'x y'i END"]
    default_o = dict(PrettyPrinterDefaults)
    for t in directed:
        try:
            d = sweep.fast_loads(t)
            base = rt.plain_all(sweep.fast_loads(default_pp.pprint(copy.deepcopy(d))))
        except Exception:
            continue
        if rt.first_diff(rt.plain_all(d), base):
            continue                 # C01's known findings
        for q in ('"', "'"):
            if rt.excluded(d, q):
                continue
            for extra in ({}, {"align_values": True}, {"indent": 0, "newlinechar": "\r\n"}):
                o = dict(default_o, quote=q, **extra)
                ctx.note_case(("directed", t, q, tuple(sorted(extra.items()))), nontrivial=True)
                hunt_one(d, t, base, o)
                if not extra:
                    model_cases.append((o, d, t, base))      # the printer model is compared on the directed shapes too
    ctx.coverage["option_values_seen"] = len(seen_values)
    ctx.obligation("every value of every option exercised (9 indents, 2 spacers, 2 quotes, 3 newlines, 3 booleans)", len(seen_values) >= 9 + 2 + 2 + 3 + 6,
                   "%d values seen" % len(seen_values))
    # ---- known shape: string-valued keys named in COMPLEX_TYPES
    for t in ("MAP QUERYMAP STATUS ON STYLE HILITE COLOR 1 2 3 END END", 'MAP NAME "x" SYMBOLSET "s.sym" DEBUG 1 END'):
        d = sweep.fast_loads(t)
        ctx.note_case(t)
        base = rt.plain_all(sweep.fast_loads(default_pp.pprint(copy.deepcopy(d))))
        got = rt.plain_all(sweep.fast_loads(PrettyPrinter(separate_complex_types=True).pprint(copy.deepcopy(d))))
        r = same_modulo_separation(base, got)
        if r:
            ctx.violation("separate:moves-non-block:" + r[0].split("/")[-1].split("[")[0], "separate_complex_types moved a string-valued key: %s" % r[1], {"text": t})
    # ---- correspondence under options
    if ctx.model_ok and model_cases:
        from corr import printer as P
        outs = P.model_lines([(o, d) for o, d, _, _ in model_cases])
        n_bad = 0
        suspects = []
        for (o, d, t, base), m in zip(model_cases, outs):
            a = P.impl_lines(o, d)
            if a != m:
                n_bad += 1
                suspects.append((d, t, base))
                ctx.violation("correspondence:O-lines-options", "printer model and PrettyPrinter disagree under %r" % (o,), {"options": o, "impl": repr(a)[:400], "model": repr(m)[:400]}, no_input=True)
        ctx.obligation("correspondence O-lines under %d (document, option tuple) pairs, incl. the dictionary after the call" % len(model_cases), n_bad == 0, "%d disagreements" % n_bad)
        ctx.count("traces_validated_against_impl", len(model_cases))
        # the tie broke: search the implementation around the disagreeing documents with the FULL option product
        for d, t, base in suspects[:3]:
            for o in product:
                if rt.excluded(d, o["quote"]) or (o["newlinechar"] == " " and o["end_comment"]):
                    continue
                hunt_one(d, t, base, o)
            ctx.count("escalated_full_products")
    ctx.sample({"options": product[137]})
    ctx.sample({"document": texts[-1][:200]})


PrettyPrinterDefaults = dict(indent=4, spacer=" ", quote='"', newlinechar="\n", end_comment=False, align_values=False, separate_complex_types=False)


def replay(ctx, body):
    from mappyfile.pprint import PrettyPrinter
    r = body["replay"]
    d = sweep.fast_loads(r["text"])
    o = r.get("options") or dict(separate_complex_types=True)
    base = rt.plain_all(sweep.fast_loads(PrettyPrinter().pprint(copy.deepcopy(d))))
    got = rt.plain_all(sweep.fast_loads(PrettyPrinter(**o).pprint(copy.deepcopy(d))))
    res = same_modulo_separation(base, got) if o.get("separate_complex_types") else (None if sweep.same(base, got) else ("root", "differs"))
    print("replay:", "same" if not res else "DIFFERS %r" % (res,))
    return 1 if res else 0
