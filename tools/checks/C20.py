"""C20: file, stream and command-line front ends agree with the string API.

Correspondence O-cli (extracted coq/Model/Utf8.v + Model/Cli.v vs the real code):
  * utf8_encode / utf8_decode vs str.encode("utf-8") / bytes.decode("utf-8") (boundary, exhaustive 1-2 byte
    sequences, structured 3-4 byte sequences, random; invalid sequences must be rejected by both)
  * universal_newlines vs io.StringIO(newline=None); file_roundtrip vs utils._save + Parser.open_file on a real file
  * unicode_escape_decode (restricted domain) vs codecs.decode(x, "unicode_escape")
  * validate_cmd vs (i) the real body of cli.validate run under click's CliRunner with mappyfile.open/validate
    stubbed to synthetic outcomes (errors counter, echoed lines), (ii) real `mappyfile validate` subprocesses
    (stdout lines and OS exit status), (iii) real `python -c sys.exit(n)` processes for the status truncation
  * get_mapfiles vs cli.get_mapfiles on a real directory
Hunter (property stated against the public API / real processes, Python oracle independent of the Coq model):
  (a) open == load == loads, save == dump == dumps, save->open keeps every string value
  (b) `mappyfile format` == save(open(..)) byte for byte for every option
  (c) `mappyfile validate`: one line per message, status 0 iff all files parsed and validated, status == problems when < 256
      (problems = validation messages + files that failed to parse)
  (d) `mappyfile schema` == json.dumps(get_versioned_schema(V), sort_keys=True, indent=4)
"""
import os, sys, io, re, json, codecs, glob, shutil, subprocess, tempfile, itertools, logging, warnings
from concurrent.futures import ThreadPoolExecutor
from checklib import codec
from checklib.model import run_model as _run_model
from checklib.shrink import shrink_list

MANIFEST = dict(
    technique="Coq codec proof (bit-level UTF-8 round trip, strict decoder canonicity) + command decision-logic theorems + extracted-model correspondence against real files and subprocesses",
    text=("Coq theorems (Props/C20.v): utf8_decode (utf8_encode s) = Ok s for every string of Unicode scalar values and, conversely, the strict decoder accepts only "
          "the canonical encoding (no overlong forms, surrogates, > U+10FFFF, truncation); text-mode newline translation is the identity exactly on texts without CR, "
          "so save->open returns the printed characters when they contain no CR (refuted with a CR witness: known finding); open/load/loads are one function of the decoded "
          "text and save/dump/dumps one function producing the characters (stated over an abstract parser and printer: the front ends add only decode-after-read and "
          "encode-before-write); `format` is save(open(IN, expand, comments, position=True), OUT, decoded options); `validate` echoes exactly one line per message plus one "
          "status line per file and the summary, its errors counter is the number of problems (messages + files that failed to parse) and its exit status is "
          "min(problems, 255), hence status = 0 <-> all files parsed and validated and status = problems when < 256, for every file list (full strength, code as of "
          "/repo e0b6215); `schema` writes the UTF-8 of the sorted JSON dump. "
          "The model is tied to utils.py/cli.py/parser.py on every run by the extracted model vs real str.encode/bytes.decode, real temp files, the real body of "
          "cli.validate under CliRunner, and real /venv/bin/mappyfile subprocesses (stdout and OS exit status). Partial: click's argument parsing, the OS exit-status channel "
          "and the codecs module internals are not modelled (covered only by the subprocess/file runs); the parser and printer are abstract in the Coq statements."),
    design_ref="DESIGN.md 7/C20",
    note=("C20: partial - click argument parsing, the OS exit-status channel and codecs internals are exercised by real subprocess/file runs only. unicode_escape decoding of "
          "--spacer/--quote/--newlinechar is modelled for ASCII and the six escapes of the help text only (a non-ASCII spacer is mangled by the real code: outside the stated domain). "
          "One genuine defect is an open known finding (CR translated on read); two were fixed by /repo e0b6215 (parse failure not counted, exit status mod 256) "
          "and are reported again if they come back."))

COMPONENTS = ["cli"]
TARGETS = []
RULE = ("codec: every boundary code point, all 1- and 2-byte sequences, structured 3/4-byte sequences around every range boundary, random strings over ASCII/Latin/BMP/astral/"
        "surrogate pools and random mutations of valid encodings (thorough: every Unicode scalar value through a real file); newline: all strings <= 6 over {a, CR, LF, e-acute}; "
        "escape: all strings <= 4 over a 10-letter alphabet; validate logic: random outcome lists with message counts around 0,1,255,256,257,512; real CLI: valid / invalid "
        "(1,2,255,256,257,300 messages) / unparseable / non-UTF-8 / version-sensitive / INCLUDE files, several --version values, every format option; documents: generated "
        "Mapfiles whose string values mix ASCII, Latin-1, BMP and astral-plane characters. non-trivial = contains a multi-byte code point or an invalid sequence (codec), "
        "at least one problem file (validate), at least one non-default option (format), a non-ASCII string value (documents); distinct by repr of the case")
EXPLANATION = ("Level proof for the codec, newline, loader/writer and command decision logic (Props/C20.v); the part of the statement that concerns click, the OS exit channel and "
               "codecs internals is covered by real subprocess and file runs (hunter + correspondence), named as not modelled.")

ROOT = os.path.dirname(os.path.dirname(os.path.dirname(os.path.abspath(__file__))))
REPO = os.environ.get("VERIF_REPO", "/repo")
BIN = "/venv/bin/mappyfile"
PY = "/venv/bin/python"

FP_PARSE = "validate:parse-failure-not-counted"
FP_MOD = "validate:exit-status-mod-256"
FP_CR = "save-open:cr-translated"


# ---------------------------------------------------------------- processes
def run_model(component, cases):
    """checklib.model.run_model with a large stack for the driver process only: the extracted list functions
    (and the driver's List.map) are not tail recursive and validate cases carry up to ~10^6 integers.
    The soft limit is raised around the call and restored, so threads created elsewhere keep small stacks."""
    import resource
    soft, hard = resource.getrlimit(resource.RLIMIT_STACK)
    want = (1 << 32) if hard == resource.RLIM_INFINITY else min(hard, 1 << 32)
    raised = False
    try:
        if soft != resource.RLIM_INFINITY and soft < want:
            resource.setrlimit(resource.RLIMIT_STACK, (want, hard)); raised = True
    except (ValueError, OSError):
        pass
    try:
        return _run_model(component, cases)
    finally:
        if raised:
            resource.setrlimit(resource.RLIMIT_STACK, (soft, hard))


def cli_env():
    e = dict(os.environ)
    e["PYTHONPATH"] = REPO
    e["MAPPYFILE_USE_CYTHON"] = "False"
    e["PYTHONDONTWRITEBYTECODE"] = "1"
    e["PYTHONHASHSEED"] = "0"
    return e


def cli(args, cwd):
    p = subprocess.run([BIN] + list(args), cwd=cwd, env=cli_env(), stdout=subprocess.PIPE, stderr=subprocess.PIPE, timeout=300)
    return p.returncode, p.stdout.decode("utf-8", errors="replace"), p.stderr.decode("utf-8", errors="replace")


def pmap(f, items, workers=8):
    with ThreadPoolExecutor(max_workers=workers) as ex:
        return list(ex.map(f, items))


# ---------------------------------------------------------------- codec cases
BOUNDARY = [0, 1, 9, 10, 13, 0x7F, 0x80, 0xFF, 0x100, 0x7FF, 0x800, 0xFFF, 0x1000, 0xD7FF, 0xD800, 0xDBFF, 0xDC00, 0xDFFF,
            0xE000, 0xFEFF, 0xFFFD, 0xFFFE, 0xFFFF, 0x10000, 0x10FFF, 0x1F600, 0x3FFFF, 0x40000, 0xFFFFF, 0x100000, 0x10FFFF]
POOLS = [list(range(0x20, 0x7F)), list(range(0xA0, 0x250)), [0x3A9, 0x416, 0x5D0, 0x4E2D, 0x6587, 0x20AC, 0x2028, 0x2029, 0xFEFF, 0xFFFD, 0x301],
         [0x10000, 0x1F600, 0x1F4A9, 0x2F800, 0xE0001, 0x10FFFF, 0x10FFFE], BOUNDARY]


def rand_cp(rng, surrogates=False):
    while True:
        c = rng.choice(rng.choice(POOLS)) if rng.random() < 0.8 else rng.randrange(0, 0x110000)
        if surrogates or not (0xD800 <= c <= 0xDFFF):
            return c


def rand_str(rng, maxlen=12, surrogates=False):
    return "".join(chr(rand_cp(rng, surrogates)) for _ in range(rng.randrange(0, maxlen + 1)))


def impl_encode(s):
    try:
        return ("ok", list(s.encode("utf-8")))
    except UnicodeEncodeError:
        return ("err", 8)


def impl_decode(b):
    try:
        return ("ok", [ord(c) for c in bytes(b).decode("utf-8")])
    except UnicodeDecodeError:
        return ("err", 8)


def read_res_str(toks):
    if not toks:
        return ("bad", toks)
    if toks[0] == 0:
        n = toks[1]
        return ("ok", toks[2:2 + n])
    if toks[0] == 1:
        return ("err", toks[1])
    return ("bad", toks)


def decode_cases(ctx, rng):
    cases = [[b] for b in range(256)]
    cases += [[a, b] for a in range(256) for b in range(256)] if not ctx.quick() else \
             [[a, b] for a in list(range(0x7E, 0x82)) + list(range(0xBE, 0xE2)) + [0xEF, 0xF0, 0xF4, 0xF5, 0xFF] for b in range(0x70, 0xD0, 1)]
    e1 = [0x7F, 0x80, 0x8F, 0x90, 0x9F, 0xA0, 0xBF, 0xC0]
    e2 = [0x7F, 0x80, 0xBF, 0xC0]
    for b0 in (0xE0, 0xE1, 0xEC, 0xED, 0xEE, 0xEF):
        for b1 in e1:
            for b2 in e2:
                cases.append([b0, b1, b2])
                cases.append([b0, b1, b2, 0x41])
    for b0 in (0xF0, 0xF1, 0xF3, 0xF4, 0xF5, 0xF7, 0xF8, 0xFC, 0xFF):
        for b1 in e1:
            for b2 in e2:
                for b3 in e2:
                    cases.append([b0, b1, b2, b3])
    for b0 in (0xE0, 0xED, 0xF0, 0xF4):     # truncated
        cases += [[b0], [b0, 0x80], [b0, 0xA0], [b0, 0x90, 0x80], [0x41, b0]]
    n = ctx.budget(3000, 60000)
    for _ in range(n):
        s = rand_str(rng, 8)
        b = list(s.encode("utf-8"))
        k = rng.random()
        if k < 0.3 and b:
            i = rng.randrange(len(b)); b[i] = rng.randrange(256)
        elif k < 0.45 and b:
            i = rng.randrange(len(b)); del b[i]
        elif k < 0.6:
            b.insert(rng.randrange(len(b) + 1), rng.choice([0x80, 0xBF, 0xC0, 0xC1, 0xE0, 0xED, 0xF4, 0xF5, 0xFF]))
        elif k < 0.7 and b:
            b = b[:rng.randrange(len(b))]
        cases.append(b)
    return cases


def encode_cases(ctx, rng):
    cases = [chr(c) for c in BOUNDARY] + [chr(a) + chr(b) for a in BOUNDARY[::3] for b in BOUNDARY[::4]]
    cases += [chr(c) for c in range(0, 0x110000, ctx.budget(997, 13))]
    for _ in range(ctx.budget(2000, 40000)):
        cases.append(rand_str(rng, 10, surrogates=rng.random() < 0.25))
    return cases


def corr_codec(ctx, rng):
    enc = encode_cases(ctx, rng)
    dec = decode_cases(ctx, rng)
    outs = run_model("cli", [(1, codec.enc_str(s)) for s in enc] + [(2, [len(b)] + b) for b in dec])
    bad = 0
    first = None
    n_rej = 0
    for s, o in zip(enc, outs[:len(enc)]):
        im = impl_encode(s); mo = read_res_str(o)
        ctx.note_case("enc" + repr(s), nontrivial=any(ord(c) > 127 for c in s))
        if im != mo:
            bad += 1; first = first or ("encode", [ord(c) for c in s], im, mo)
    for b, o in zip(dec, outs[len(enc):]):
        im = impl_decode(b); mo = read_res_str(o)
        ctx.note_case("dec" + repr(b), nontrivial=any(x > 127 for x in b))
        n_rej += im[0] == "err"
        if im != mo:
            bad += 1; first = first or ("decode", b, im, mo)
    ctx.obligation("correspondence O-cli/utf8 (extracted utf8_encode/utf8_decode = str.encode/bytes.decode, incl. rejections)", bad == 0,
                   "%d encode + %d decode cases (%d rejected by CPython), %d disagreements%s" % (len(enc), len(dec), n_rej, bad, "; first: %r" % (first,) if first else ""))
    if bad:
        ctx.violation("correspondence:O-cli/utf8", "model codec and CPython codec disagree: %r" % (first,), {"kind": "codec", "case": first}, no_input=True)
    ctx.count("codec_cases", len(enc) + len(dec))
    ctx.count("codec_rejections", n_rej)
    ctx.count("traces_validated_against_impl", len(enc) + len(dec))
    ctx.sample({"utf8_decode_case": dec[-1], "python": impl_decode(dec[-1])})


def corr_newlines_escape(ctx, rng):
    nl = []
    for n in range(0, ctx.budget(6, 8) + 1):
        nl += ["".join(t) for t in itertools.product("a\r\né", repeat=n)]
    for _ in range(ctx.budget(500, 5000)):
        nl.append("".join(rng.choice(["\r", "\n", "\r\n", "x", "\U0001F600", " "]) for _ in range(rng.randrange(0, 20))))
    alpha = ["\\", "t", "n", "r", '"', "'", "a", " ", "x", "é"]
    esc = []
    for n in range(0, ctx.budget(4, 5) + 1):
        esc += ["".join(t) for t in itertools.product(alpha, repeat=n)]
    outs = run_model("cli", [(3, codec.enc_str(s)) for s in nl] + [(4, codec.enc_str(s)) for s in esc])
    bad = 0; first = None
    for s, o in zip(nl, outs[:len(nl)]):
        im = [ord(c) for c in io.StringIO(s, newline=None).read()]
        mo = o[1:1 + o[0]] if o else None
        ctx.note_case("nl" + repr(s), nontrivial="\r" in s)
        if im != mo:
            bad += 1; first = first or ("universal_newlines", s, im, mo)
    n_dom = 0
    for s, o in zip(esc, outs[len(nl):]):
        if o and o[0] == 1:
            n_dom += 1
            with warnings.catch_warnings():
                warnings.simplefilter("ignore")
                try:
                    im = [ord(c) for c in codecs.decode(s, "unicode_escape")]
                except Exception as ex:
                    im = ("exc", type(ex).__name__)
            mo = o[2:2 + o[1]]
            ctx.note_case("esc" + repr(s), nontrivial="\\" in s)
            if im != mo:
                bad += 1; first = first or ("unicode_escape", s, im, mo)
        elif o != [0]:
            bad += 1; first = first or ("unicode_escape-bad-output", s, None, o)
    ctx.obligation("correspondence O-cli/newlines+escape (universal_newlines = io.StringIO(newline=None); unicode_escape_decode = codecs.decode on its domain)",
                   bad == 0, "%d newline cases, %d escape cases of which %d in the modelled domain, %d disagreements%s"
                   % (len(nl), len(esc), n_dom, bad, "; first: %r" % (first,) if first else ""))
    if bad:
        ctx.violation("correspondence:O-cli/newlines-escape", "model and CPython disagree: %r" % (first,), {"kind": "codec", "case": first}, no_input=True)
    ctx.count("newline_cases", len(nl)); ctx.count("escape_cases_in_domain", n_dom)
    ctx.count("traces_validated_against_impl", len(nl) + n_dom)


# ---------------------------------------------------------------- text-level file round trip
def impl_file_roundtrip(parser, path, s):
    """utils._save then Parser.open_file on a real file."""
    from mappyfile import utils
    try:
        utils._save(path, s)
    except UnicodeEncodeError:
        return ("err", 8)
    try:
        return ("ok", [ord(c) for c in parser.open_file(path)])
    except UnicodeDecodeError:
        return ("err", 8)


def cr_normal(s):
    return s.replace("\r\n", "\n").replace("\r", "\n")


def text_roundtrip(ctx, rng, tmp):
    from mappyfile.parser import Parser
    logging.getLogger("mappyfile.parser").setLevel(logging.CRITICAL)
    parser = Parser()
    path = os.path.join(tmp, "text_rt.map")
    cases = ["", "a\rb", "a\r\nb", "\r", "café \U0001F600", "\ufeffMAP END"] + [chr(c) for c in BOUNDARY]
    for _ in range(ctx.budget(1500, 15000)):
        s = rand_str(rng, 16, surrogates=rng.random() < 0.05)
        if rng.random() < 0.9:
            s = s.replace("\r", "")
        cases.append(s)
    if not ctx.quick():        # every Unicode scalar value, through a real file
        step = 4096
        for lo in range(0, 0x110000, step):
            cases.append("".join(chr(c) for c in range(lo, min(lo + step, 0x110000)) if not (0xD800 <= c <= 0xDFFF) and c != 13))
        ctx.coverage["exhaustive_code_points_through_real_file"] = True
    outs = run_model("cli", [(6, codec.enc_str(s)) for s in cases]) if ctx.model_ok else [None] * len(cases)
    bad = 0; first = None
    for s, o in zip(cases, outs):
        im = impl_file_roundtrip(parser, path, s)
        ctx.note_case("rt" + repr(s), nontrivial=any(ord(c) > 127 for c in s))
        if o is not None and read_res_str(o) != im:
            bad += 1; first = first or ([ord(c) for c in s], im, read_res_str(o))
        # hunter: every string of scalar values survives save -> open unchanged
        if any(0xD800 <= ord(c) <= 0xDFFF for c in s):
            continue        # not a Unicode string (lone surrogate): outside the property
        want = ("ok", [ord(c) for c in s])
        if im != want:
            if im == ("ok", [ord(c) for c in cr_normal(s)]):
                fp = FP_CR
                if ctx.match_known(fp) is None:
                    s = "".join(shrink_list(list(s), lambda sub: impl_file_roundtrip(parser, path, "".join(sub)) != ("ok", [ord(c) for c in sub])))
            else:
                fp = "save-open:text-changed"
                s = "".join(shrink_list(list(s), lambda sub: impl_file_roundtrip(parser, path, "".join(sub)) != ("ok", [ord(c) for c in sub])))
            ctx.violation(fp, "utils._save then Parser.open_file changes the text %r -> %r" % (s, impl_file_roundtrip(parser, path, s)),
                          {"kind": "text-roundtrip", "text": [ord(c) for c in s]})
    if ctx.model_ok:
        ctx.obligation("correspondence O-cli/file (file_roundtrip = utils._save + Parser.open_file on a real file)", bad == 0,
                       "%d strings, %d disagreements%s" % (len(cases), bad, "; first: %r" % (first,) if first else ""))
        if bad:
            ctx.violation("correspondence:O-cli/file", "model file round trip and real file round trip disagree: %r" % (first,), {"kind": "codec", "case": first}, no_input=True)
        ctx.count("traces_validated_against_impl", len(cases))
    ctx.count("text_roundtrip_cases", len(cases))


# ---------------------------------------------------------------- documents (hunter a)
def gen_value(rng):
    n = rng.randrange(0, 9)
    out = []
    for _ in range(n):
        c = rand_cp(rng)
        if c in (0x22, 0x27, 0x5C, 13):     # quotes/backslash belong to C01/C03; CR is the known finding, probed separately
            c = 0x1F600
        out.append(chr(c))
    return "".join(out)


def gen_doc(rng):
    """Returns (text, [(path, value)]) with path a tuple of keys/indices into the dict."""
    vals = []
    name = gen_value(rng); vals.append((("name",), name))
    t = 'MAP\n  NAME "%s"\n' % name
    if rng.random() < 0.7:
        k = "k%d" % rng.randrange(10); v = gen_value(rng)
        t += '  WEB\n    METADATA\n      "%s" "%s"\n    END\n  END\n' % (k, v)
        vals.append((("web", "metadata", k), v))
    for i in range(rng.randrange(1, 4)):
        ln = gen_value(rng); data = gen_value(rng)
        t += '  LAYER\n    NAME "%s"\n    TYPE POINT\n    DATA "%s"\n' % (ln, data)
        vals.append((("layers", i, "name"), ln)); vals.append((("layers", i, "data"), data))
        if rng.random() < 0.5:
            cn = gen_value(rng)
            t += '    CLASS\n      NAME "%s"\n    END\n' % cn
            vals.append((("layers", i, "classes", 0, "name"), cn))
        t += "  END\n"
    t += "END\n"
    return t, vals


def getpath(d, path):
    for k in path:
        d = d[k]
    return d


def canon_dict(d):
    return json.dumps(d, sort_keys=False, default=str)


def map_strings(v, f):
    if isinstance(v, str):
        return f(v)
    if isinstance(v, dict):
        return {k: map_strings(x, f) for k, x in v.items()}
    if isinstance(v, (list, tuple)):
        return [map_strings(x, f) for x in v]
    return v


def doc_check(text, vals, lopts, popts, tmp, tag="doc"):
    """The property on one document. Returns list of (fingerprint, what)."""
    import mappyfile
    out = []
    p = os.path.join(tmp, tag + "_in.map")
    with open(p, "wb") as f:
        f.write(text.encode("utf-8"))
    try:
        d_loads = mappyfile.loads(text, **lopts)
    except Exception as ex:
        return [("doc:generator", "generated document does not parse (%s): %r" % (type(ex).__name__, text[:200]))]
    d_open = mappyfile.open(p, **lopts)
    with open(p, "r", encoding="utf-8") as fp:
        d_load = mappyfile.load(fp, **lopts)
    d_load2 = mappyfile.load(io.StringIO(text), **lopts)

    def differ(a, b, what, kind):
        if not (a == b and canon_dict(a) == canon_dict(b)):
            if map_strings(a, cr_normal) == map_strings(b, cr_normal):
                out.append((FP_CR, "%s differ only by CR -> LF inside string values (text-mode newline translation on read)" % what))
            else:
                out.append((kind, "%s differ: %s vs %s" % (what, canon_dict(a)[:300], canon_dict(b)[:300])))
    differ(d_open, d_loads, "open(path) and loads(text)", "loaders-disagree:open-loads")
    differ(d_load, d_loads, "load(text file object) and loads(text)", "loaders-disagree:load-loads")
    differ(d_load2, d_loads, "load(StringIO) and loads(text)", "loaders-disagree:loadstringio-loads")
    for path, v in vals:
        try:
            got = getpath(d_loads, path)
        except Exception:
            got = None
        if got != v:
            out.append(("doc:generator", "loads does not return the generated value at %r: %r vs %r (string-API matter, not a front-end one)" % (path, got, v)))
            return out
    # writers
    s = mappyfile.dumps(d_loads, **popts)
    p2 = os.path.join(tmp, tag + "_save.map"); p3 = os.path.join(tmp, tag + "_dump.map")
    try:
        r = mappyfile.save(d_loads, p2, **popts)
    except UnicodeEncodeError as ex:
        out.append(("save:encode-error", "save raises %s" % ex)); return out
    b_save = open(p2, "rb").read()
    with open(p3, "w", encoding="utf-8", newline="") as fp:
        mappyfile.dump(d_loads, fp, **popts)
    b_dump = open(p3, "rb").read()
    sio = io.StringIO(newline="")
    mappyfile.dump(d_loads, sio, **popts)
    if r != p2:
        out.append(("writers-disagree:save-return", "save does not return the output file name"))
    try:
        same = b_save.decode("utf-8") == s
    except UnicodeDecodeError:
        same = False
    if not same or b_save != s.encode("utf-8"):
        out.append(("writers-disagree:save-dumps", "the file written by save is not the UTF-8 of dumps: %r vs %r" % (b_save[:120], s.encode("utf-8")[:120])))
    if b_dump != s.encode("utf-8"):
        out.append(("writers-disagree:dump-dumps", "the file written through dump is not the UTF-8 of dumps"))
    if sio.getvalue() != s:
        out.append(("writers-disagree:dumpstringio-dumps", "dump to StringIO differs from dumps"))
    # save -> open keeps every string value
    try:
        d_back = mappyfile.open(p2, **lopts)
        d_back_s = mappyfile.loads(s, **lopts)
    except Exception as ex:
        out.append(("doc:generator", "printed document does not parse (%s) - string-API matter" % type(ex).__name__)); return out
    differ(d_back, d_back_s, "open(save(d)) and loads(dumps(d))", "save-open:differs-from-string-api")
    for path, v in vals:
        try:
            got = getpath(d_back, path)
        except Exception:
            got = None
        if got != v:
            if isinstance(got, str) and got == cr_normal(v):
                out.append((FP_CR, "string value %r comes back as %r after save -> open" % (v, got)))
            elif getpath(d_back_s, path) == got:
                pass    # the string API itself changes it: not a front-end defect (C01/C03)
            else:
                out.append(("save-open:value-changed", "string value at %r: %r comes back as %r after save -> open" % (path, v, got)))
    return out


def rand_lopts(rng):
    return dict(expand_includes=rng.random() < 0.7, include_position=rng.random() < 0.4, include_comments=rng.random() < 0.3)


def rand_popts(rng):
    return dict(indent=rng.randrange(0, 9), spacer=rng.choice([" ", " ", "\t"]), quote=rng.choice(['"', '"', "'"]),
                newlinechar=rng.choice(["\n", "\n", "\r\n"]), end_comment=rng.random() < 0.3, align_values=rng.random() < 0.3)


def include_check(sub):
    """open(path) and load(file object) on a file with a relative INCLUDE (fn comes from fp.name)."""
    import mappyfile
    os.makedirs(sub, exist_ok=True)
    open(os.path.join(sub, "main.map"), "w", encoding="utf-8").write('MAP\n NAME "é"\n INCLUDE "part.map"\nEND\n')
    open(os.path.join(sub, "part.map"), "w", encoding="utf-8").write('LAYER\n NAME "inc\U0001F600"\n TYPE POINT\nEND\n')
    try:
        d1 = mappyfile.open(os.path.join(sub, "main.map"))
    except Exception as ex:
        return "open(path) raises %s on a file with a relative INCLUDE" % type(ex).__name__
    try:
        with open(os.path.join(sub, "main.map"), encoding="utf-8") as fp:
            d2 = mappyfile.load(fp)
    except Exception as ex:
        return "load(file object) raises %s on a file with a relative INCLUDE that open(path) reads (%s)" % (type(ex).__name__, str(ex)[:120])
    if d1 != d2 or d1["layers"][0]["name"] != "inc\U0001F600":
        return "open(path) and load(file object) differ on a file with a relative INCLUDE"
    return None


def hunt_docs(ctx, rng, tmp):
    import mappyfile
    cases = []
    cpath = os.path.join(ROOT, "corpus", "C20.json")
    if os.path.exists(cpath):
        for c in json.load(open(cpath)):
            if c.get("kind") == "doc":
                cases.append((c["text"], [(tuple(p), v) for p, v in c["vals"]], c.get("lopts", {}), c.get("popts", {})))
    # the recorded CR input (known finding) and fixed astral / BOM documents first
    cases.append(('MAP NAME "a\rb" END', [(("name",), "a\rb")], {}, {}))
    cases.append(('MAP\n  NAME "\U0001F600 café 中文 \U0010FFFF"\n  LAYER\n    NAME "ßЖ"\n    TYPE POINT\n  END\nEND\n',
                  [(("name",), "\U0001F600 café 中文 \U0010FFFF"), (("layers", 0, "name"), "ßЖ")], {}, {}))
    for _ in range(ctx.budget(8, 200)):
        t, vals = gen_doc(rng)
        cases.append((t, vals, rand_lopts(rng), rand_popts(rng)))
    n_fail = 0
    for text, vals, lo, po in cases:
        ctx.note_case("doc" + repr((text, sorted(lo.items()), sorted(po.items()))), nontrivial=any(ord(c) > 127 for c in text))
        try:
            fails = doc_check(text, vals, lo, po, tmp)
        except Exception as ex:
            fails = [("doc:exception:" + type(ex).__name__, "front end raises %s: %s" % (type(ex).__name__, str(ex)[:200]))]
        for fp, what in fails:
            n_fail += 1
            ctx.violation(fp, what + " | document: %r" % text[:200],
                          {"kind": "doc", "text": text, "vals": [[list(p), v] for p, v in vals], "lopts": lo, "popts": po})
    # INCLUDE: open(path) and load(file object) resolve relative names the same way (fn taken from fp.name)
    sub = os.path.join(tmp, "incdir")
    ctx.note_case("doc-include")
    r = include_check(sub)
    if r is not None:
        ctx.violation("loaders-disagree:include", r, {"kind": "include"})
    ctx.count("document_cases", len(cases) + 1)
    ctx.sample({"document": cases[-1][0][:160], "load_options": cases[-1][2], "print_options": cases[-1][3]})


# ---------------------------------------------------------------- format (hunter b)
ESC = {"t": "\t", "n": "\n", "r": "\r", '"': '"', "'": "'", "\\": "\\"}


def unescape(x):
    """Independent reading of the help text: backslash followed by t n r quote or backslash."""
    out = []; i = 0
    while i < len(x):
        if x[i] == "\\":
            out.append(ESC[x[i + 1]]); i += 2
        else:
            out.append(x[i]); i += 1
    return "".join(out)


FMT_DEFAULT = dict(indent=4, spacer=" ", quote='"', newlinechar="\n", expand=True, comments=False)
FMT_CHOICES = dict(indent=list(range(0, 9)), spacer=[" ", "\t", "\\t"], quote=['"', "'", "\\'", '\\"'],
                   newlinechar=["\n", "\\n", "\r\n", "\\r\\n"], expand=[True, False], comments=[True, False])


def fmt_args(o):
    a = []
    for k in ("indent", "spacer", "quote", "newlinechar"):
        if o[k] != FMT_DEFAULT[k]:
            a += ["--" + k, str(o[k])]
    if o["expand"] != FMT_DEFAULT["expand"]:
        a.append("--expand" if o["expand"] else "--no-expand")
    if o["comments"] != FMT_DEFAULT["comments"]:
        a.append("--comments" if o["comments"] else "--no-comments")
    return a


def write_format_inputs(tmp):
    d = os.path.join(tmp, "fmt"); os.makedirs(d, exist_ok=True)
    open(os.path.join(d, "main.map"), "w", encoding="utf-8").write(
        '# top comment\nMAP\n NAME "xé\U0001F600" # trailing comment\n EXTENT 0 0 10 10\n INCLUDE "inc.map"\n'
        ' WEB METADATA "wms_title" "t中" END END\nEND\n')
    open(os.path.join(d, "inc.map"), "w", encoding="utf-8").write(
        'LAYER\n NAME "inc" # comment in include\n TYPE POLYGON\n CLASS NAME "it\'s" STYLE COLOR 1 2 3 END END\nEND\n')
    open(os.path.join(d, "plain.map"), "w", encoding="utf-8").write(
        'MAP NAME "plain" LAYER NAME "l1" TYPE POINT PROCESSING "A=1" PROCESSING "B=2" END END\n')
    # other working directories to start the command from: one with a decoy include of the same name, one empty
    os.makedirs(os.path.join(d, "decoy"), exist_ok=True)
    open(os.path.join(d, "decoy", "inc.map"), "w", encoding="utf-8").write('LAYER\n NAME "decoy"\n TYPE POINT\nEND\n')
    os.makedirs(os.path.join(d, "empty"), exist_ok=True)
    return d


def format_once(d, inp, o, tag, cwd_mode=0):
    """Returns None when CLI output == save(open(..)) output, else a description.
    cwd_mode: the command is started in the Mapfile's directory (0), in a directory holding a decoy include
    of the same name (1) or in an empty directory (2) - the Mapfile's own directory is what INCLUDEs refer to."""
    import mappyfile
    out_cli = os.path.join(d, "out_cli_%s.map" % tag); out_api = os.path.join(d, "out_api_%s.map" % tag)
    for p in (out_cli, out_api):
        if os.path.exists(p):
            os.remove(p)
    if cwd_mode == 0:
        rc, so, se = cli(["format", inp, os.path.basename(out_cli)] + fmt_args(o), d)
    else:
        rc, so, se = cli(["format", os.path.join(d, inp), out_cli] + fmt_args(o), os.path.join(d, "decoy" if cwd_mode == 1 else "empty"))
    try:
        dd = mappyfile.open(os.path.join(d, inp), expand_includes=o["expand"], include_comments=o["comments"], include_position=True)
        mappyfile.save(dd, out_api, indent=o["indent"], spacer=unescape(o["spacer"]), quote=unescape(o["quote"]), newlinechar=unescape(o["newlinechar"]))
    except Exception as ex:
        # the API itself refuses: the command agrees when it fails too (uncaught exception, non-zero status)
        return None if rc != 0 else "save(open(IN)) raises %s but the command exits 0" % type(ex).__name__
    if rc != 0:
        return "exit status %d, stderr %s" % (rc, se[-300:])
    if not os.path.exists(out_cli):
        return "no output file written"
    a = open(out_cli, "rb").read(); b = open(out_api, "rb").read()
    if a != b:
        return "CLI wrote %r..., save(open()) wrote %r..." % (a[:160], b[:160])
    return None


def hunt_format(ctx, rng, tmp):
    d = write_format_inputs(tmp)
    cases = []
    # every value of every option at least once (one-at-a-time around the default), then random combinations
    singles = []
    for k, vs in FMT_CHOICES.items():
        for v in vs:
            if v != FMT_DEFAULT[k]:
                o = dict(FMT_DEFAULT); o[k] = v; singles.append(o)
    if ctx.quick():
        # quick: merge the one-at-a-time values into combined cases so that each option value still occurs
        rng.shuffle(singles)
        keys = list(FMT_CHOICES)
        pools = {k: [v for v in FMT_CHOICES[k]] for k in keys}
        for k in keys:
            rng.shuffle(pools[k])
        for i in range(9):
            cases.append({k: pools[k][i % len(pools[k])] for k in keys})
        cases.append(dict(FMT_DEFAULT))
    else:
        cases = singles + [dict(FMT_DEFAULT)]
        for _ in range(60):
            cases.append({k: rng.choice(vs) for k, vs in FMT_CHOICES.items()})
    jobs = [("main.map" if i % 3 != 2 else "plain.map", o, "c%d" % i, (i // 2) % 3) for i, o in enumerate(cases)]
    res = pmap(lambda j: format_once(d, j[0], j[1], j[2], j[3]), jobs)
    seen = {k: set() for k in FMT_CHOICES}
    for (inp, o, tag, cwd_mode), r in zip(jobs, res):
        for k in o:
            seen[k].add(repr(o[k]))
        ctx.note_case("fmt" + repr((inp, sorted(o.items()))), nontrivial=o != FMT_DEFAULT)
        if r is not None:
            # which options are needed for the failure?
            need = []
            for k in FMT_CHOICES:
                if o[k] != FMT_DEFAULT[k]:
                    o2 = dict(o); o2[k] = FMT_DEFAULT[k]
                    if format_once(d, inp, o2, tag + "s", cwd_mode) is None:
                        need.append(k)
            if cwd_mode and format_once(d, inp, o, tag + "w", 0) is None:
                need.append("cwd")
            ctx.violation("format:" + ("+".join(need) if need else "output-differs"),
                          "`mappyfile format %s OUT %s` (started in %s) differs from save(open(IN)): %s"
                          % (inp, " ".join(map(repr, fmt_args(o))), ["the Mapfile's directory", "a directory with a decoy include", "an empty directory"][cwd_mode], r),
                          {"kind": "format", "input": inp, "options": o, "cwd_mode": cwd_mode})
    ctx.count("format_invocations", len(jobs))
    ctx.coverage["format_option_values_seen"] = {k: sorted(v) for k, v in seen.items()}
    ctx.sample({"format_args": fmt_args(cases[0])})


# ---------------------------------------------------------------- validate (hunter c + correspondence)
VERSIONED = 'MAP\n NAME "x"\n LAYER\n  NAME "l"\n  TYPE POINT\n  CONNECTIONOPTIONS\n   "a" "b"\n  END\n  COMPOSITE\n   OPACITY 50\n  END\n END\nEND\n'


def file_body(spec):
    kind = spec[0]
    if kind == "ok":
        return ('MAP\n NAME "ok%s"\n LAYER NAME "l" TYPE POINT END\nEND\n' % spec[1]).encode()
    if kind == "invalid":
        return ("MAP\n" + "".join(' LAYER NAME "l%d" TYPE POINTX END\n' % i for i in range(spec[1])) + "END\n").encode()
    if kind == "unparseable":
        return b'MAP\n NAME "x"\n LAYER\n'
    if kind == "notutf8":
        return b'MAP\n NAME "\xff\xfe"\nEND\n'
    if kind == "versioned":
        return VERSIONED.encode()
    if kind == "include":
        return b'MAP\n NAME "m"\n INCLUDE "inc_bad.map"\nEND\n'
    raise ValueError(spec)


def file_name(spec):
    return "%s%s.map" % (spec[0], spec[1] if len(spec) > 1 else "")


def write_validate_files(tmp, specs):
    d = os.path.join(tmp, "val"); os.makedirs(d, exist_ok=True)
    for s in specs:
        with open(os.path.join(d, file_name(s)), "wb") as f:
            f.write(file_body(s))
    with open(os.path.join(d, "inc_bad.map"), "wb") as f:
        f.write(b'LAYER NAME "i" TYPE POINTX END\n')
    os.makedirs(os.path.join(d, "adir.map"), exist_ok=True)      # a directory matching *.map must be skipped
    return d


_outcome_cache = {}


def api_outcome(d, fn, version, expand):
    """Per-file outcome through the public API: None = parse failed, else the list of message dicts."""
    import mappyfile
    key = (d, fn, version, expand)
    if key not in _outcome_cache:
        try:
            dd = mappyfile.open(os.path.join(d, fn), expand_includes=expand, include_position=True)
        except Exception:
            _outcome_cache[key] = None
        else:
            _outcome_cache[key] = [dict(m) for m in mappyfile.validate(dd, version)]
    return _outcome_cache[key]


def expected_line(fn, m):
    return "%s (Line: %s Column: %s) %s - %s" % (fn, m.get("line"), m.get("column"), m["message"], m["error"])


MSG_RE = re.compile(r"^.+ \(Line: (\d+|None) Column: (\d+|None)\) .+ - .+$")


def validate_once(d, patterns, version, expand):
    args = ["validate"] + list(patterns)
    if version is not None:
        args += ["--version", str(version)]
    if not expand:
        args.append("--no-expand")
    rc, so, se = cli(args, d)
    return rc, so


def matched_files(d, patterns):
    out = []
    for p in patterns:
        for mf in glob.glob(p, root_dir=d):
            if not os.path.isdir(os.path.join(d, mf)):
                out.append(mf)
    return out


def judge_validate(d, patterns, version, expand, rc, so):
    """Property oracle. Returns (list of (fp, what), files, outcomes)."""
    files = matched_files(d, patterns)
    v = 8.2 if version is None else version
    outs = [api_outcome(d, fn, v, expand) for fn in files]
    n_pf = sum(1 for o in outs if o is None)
    n_msg = sum(len(o) for o in outs if o is not None)
    problems = n_pf + n_msg
    fails = []
    lines = so.split("\n")
    want = sorted(expected_line(fn, m) for fn, o in zip(files, outs) if o for m in o)
    got = sorted(l for l in lines if MSG_RE.match(l))
    if want != got:
        fails.append(("validate:message-lines", "stdout does not carry exactly one line per validation message: %d expected, %d found; first expected %r"
                      % (len(want), len(got), want[:1])))
    ok_all = problems == 0
    if (rc == 0) != ok_all or (problems < 256 and rc != problems):
        # one fingerprint per root cause (both were genuine defects, fixed by /repo e0b6215, and are reported
        # again should they come back): the status n_msg mod 256 is what "parse failures are not counted"
        # (applies when a file failed to parse) and "status wraps modulo 256" (applies from 256 messages)
        # produce, separately or together; any other wrong status is a different defect
        if rc == n_msg % 256 and (n_pf > 0 or n_msg >= 256):
            fps = ([FP_PARSE] if n_pf > 0 else []) + ([FP_MOD] if n_msg >= 256 else [])
        else:
            fps = ["validate:exit-status"]
        for fp in fps:
            fails.append((fp, "exit status %d for %d file(s) with %d unparseable and %d validation message(s) (%d problems): expected %s"
                          % (rc, len(files), n_pf, n_msg, problems, "0" if ok_all else ("%d" % problems if problems < 256 else "non-zero"))))
    return fails, files, outs


def enc_opt(z):
    return [0] if z is None else [1, int(z)]


def enc_validate_case(mapfiles, files):
    t = [len(mapfiles)]
    for m in mapfiles:
        t += codec.enc_str(m)
    t.append(len(files))
    for fn, o in files:
        t += codec.enc_str(fn)
        if o is None:
            t.append(0)
        else:
            t += [1, len(o)]
            for m in o:
                t += enc_opt(m.get("line")) + enc_opt(m.get("column")) + codec.enc_str(m["message"]) + codec.enc_str(m["error"])
    return t


def read_validate_out(toks):
    rd = codec.Reader(toks)
    n = rd.z()
    lines = [rd.str() for _ in range(n)]
    return lines, rd.z(), rd.z(), rd.z(), rd.z()       # lines, validation_count, errors, sys.exit argument, status


def hunt_validate(ctx, rng, tmp):
    sizes = [1, 2, 255, 256, 257, 300] + ([512, 513] if not ctx.quick() else [])
    specs = [("ok", 1), ("ok", 2), ("unparseable",), ("notutf8",), ("versioned",), ("include",)] + [("invalid", n) for n in sizes]
    d = write_validate_files(tmp, specs)
    N = file_name
    cases = [
        ([N(("unparseable",))], None, True),                    # recorded input of the fixed finding (parse failure not counted)
        ([N(("invalid", 256))], None, True),                    # recorded input of the fixed finding (status wrapped mod 256)
        ([N(("ok", 1))], None, True),
        ([N(("invalid", 1))], None, True),
        ([N(("invalid", 2))], 7.6, True),
        ([N(("invalid", 255))], None, True),
        ([N(("invalid", 257))], None, True),
        ([N(("invalid", 300))], 8.0, True),
        ([N(("ok", 1)), N(("invalid", 1)), N(("unparseable",))], None, True),
        (["ok*.map"], None, True),
        ([N(("invalid", 1)), N(("invalid", 2)), N(("invalid", 1))], None, True),
        (["nomatch*.map"], None, True),
        ([N(("versioned",))], 7.0, True),
        ([N(("versioned",))], 7.6, True),
        ([N(("include",))], None, True),
        ([N(("include",))], None, False),
        ([N(("notutf8",)), N(("ok", 2))], 6.0, True),
        (["*.map"], None, True),
        ([N(("invalid", 255)), N(("invalid", 1))], None, True),
    ]
    if not ctx.quick():
        cases += [([N(("invalid", 512))], None, True), ([N(("invalid", 513))], None, True),
                  ([N(("invalid", 255)), N(("invalid", 257))], None, True)]
        names = [N(s) for s in specs]
        for _ in range(40):
            k = rng.randrange(1, 5)
            cases.append(([rng.choice(names) for _ in range(k)], rng.choice([None, 6.0, 7.0, 7.6, 8.0, 8.2, 8.4]), rng.random() < 0.8))
    res = pmap(lambda c: validate_once(d, c[0], c[1], c[2]), cases)
    model_cases = []
    for (patterns, version, expand), (rc, so) in zip(cases, res):
        fails, files, outs = judge_validate(d, patterns, version, expand, rc, so)
        problems = sum(1 if o is None else len(o) for o in outs)
        ctx.note_case("val" + repr((patterns, version, expand)), nontrivial=problems > 0)
        model_cases.append((patterns, list(zip(files, outs)), rc, so))
        for fp, what in fails:
            pats = list(patterns)
            if ctx.match_known(fp) is None and len(files) > 1 and pats == files:
                def still(sub):
                    if not sub:
                        return False
                    rc2, so2 = validate_once(d, sub, version, expand)
                    return any(f[0] == fp for f in judge_validate(d, sub, version, expand, rc2, so2)[0])
                pats = shrink_list(pats, still, max_rounds=6)
            ctx.violation(fp, "`mappyfile validate %s%s%s`: %s" % (" ".join(pats), "" if version is None else " --version %s" % version, "" if expand else " --no-expand", what),
                          {"kind": "validate", "patterns": pats, "version": version, "expand": expand,
                           "files": {file_name(s): file_body(s).decode("latin-1") for s in specs if len(file_body(s)) < 400}})
    ctx.count("validate_invocations", len(cases))
    ctx.sample({"validate_args": cases[8][0], "exit_status": res[8][0], "stdout": res[8][1][:400]})
    # correspondence: extracted validate_cmd vs the real subprocess (stdout lines, exit status)
    if ctx.model_ok:
        outs = run_model("cli", [(5, enc_validate_case(p, f)) for p, f, _, _ in model_cases])
        bad = 0; first = None
        for (p, f, rc, so), o in zip(model_cases, outs):
            lines, vc, errs, exit_arg, status = read_validate_out(o)
            if "\n".join(lines) + "\n" != so or status != rc:
                bad += 1
                first = first or {"patterns": p, "model_status": status, "real_status": rc, "model_lines": lines[:3], "real_stdout": so[:300]}
        ctx.obligation("correspondence O-cli/validate (validate_cmd lines and exit status = stdout and OS exit status of real `mappyfile validate` subprocesses)",
                       bad == 0, "%d subprocess runs, %d disagreements%s" % (len(model_cases), bad, "; first: %r" % (first,) if first else ""))
        if bad:
            ctx.violation("correspondence:O-cli/validate", "model and real subprocess disagree: %r" % (first,), {"kind": "validate-corr", "case": first}, no_input=True)
        ctx.count("traces_validated_against_impl", len(model_cases))
    return d


def impl_validate_logic(mapfiles, files):
    """The real body of cli.validate under click's CliRunner, with mappyfile.open / mappyfile.validate /
    cli.get_mapfiles replaced by stubs that replay [files] = [(fn, None | [message dicts])]."""
    from click.testing import CliRunner
    import mappyfile, mappyfile.cli as mcli
    it = iter(files)
    saved = (mappyfile.open, mappyfile.validate, mcli.get_mapfiles)

    def stub_open(fn, **kw):
        f, o = next(it)
        if o is None:
            raise ValueError("stub: parse failure")
        return {"__msgs__": o}

    root = logging.getLogger()
    handlers = list(root.handlers)
    logging.disable(logging.CRITICAL)
    try:
        mappyfile.open = stub_open
        mappyfile.validate = lambda d, version=None: [dict(m) for m in d["__msgs__"]]
        mcli.get_mapfiles = lambda m: [fn for fn, _ in files]
        r = CliRunner().invoke(mcli.main, ["validate"] + list(mapfiles))
    finally:
        mappyfile.open, mappyfile.validate, mcli.get_mapfiles = saved
        logging.disable(logging.NOTSET)
        for h in list(root.handlers):
            if h not in handlers:
                root.removeHandler(h)
    return r.exit_code, r.stdout, (r.exception if not isinstance(r.exception, SystemExit) else None)


def gen_logic_case(rng):
    nfiles = rng.choice([0, 1, 1, 2, 3, 4, 6])
    files = []
    for i in range(nfiles):
        fn = "f%d.map" % i if rng.random() < 0.8 else "dir%d/mé %d.map" % (i, i)
        if rng.random() < 0.25:
            files.append((fn, None)); continue
        n = rng.choice([0, 0, 1, 1, 2, 3, 7, 254, 255, 256, 257, 300, 511, 512, 513]) if rng.random() < 0.5 else rng.choice([0, 1, 2, 3])
        msgs = []
        for j in range(n):
            msgs.append({"line": rng.choice([None, 0, 1, 7, 10, 99, 100, 12345]), "column": rng.choice([None, 1, 2, 80, 1000]),
                         "message": "ERROR: Invalid value in %s" % rng.choice(["TYPE", "LAYER", "STATUS", "É"]),
                         "error": rng.choice(["'pointx' is not one of ['a', 'b']", "x - y", "é\U0001F600 too long", "1 is not of type 'string'", ""])})
        files.append((fn, msgs))
    mapfiles = [fn for fn, _ in files] if files else rng.choice([[], ["*.map"], ["a*.map", "b/c.map"]])
    return mapfiles, files


def corr_validate_logic(ctx, rng):
    cases = [(["u.map"], [("u.map", None)]), (["b.map"], [("b.map", [{"line": 1, "column": 2, "message": "m", "error": "e"}] * 256)])]
    for _ in range(ctx.budget(150, 2500)):
        cases.append(gen_logic_case(rng))
    outs = run_model("cli", [(5, enc_validate_case(m, f)) for m, f in cases])
    bad = 0; first = None
    for (m, f), o in zip(cases, outs):
        code, out, exc = impl_validate_logic(m, f)
        lines, vc, errs, exit_arg, status = read_validate_out(o)
        ctx.note_case("logic" + repr((m, [(fn, None if x is None else len(x)) for fn, x in f])), nontrivial=any(x is None or x for _, x in f))
        # under CliRunner the exit code is the argument given to sys.exit (no OS truncation)
        if exc is not None or "\n".join(lines) + "\n" != out or code != exit_arg or status != exit_arg % 256:
            bad += 1
            first = first or {"mapfiles": m, "files": [(fn, None if x is None else len(x)) for fn, x in f], "model": (lines[:3], errs, exit_arg, status),
                              "impl": (out[:200], code, repr(exc))}
    ctx.obligation("correspondence O-cli/validate-logic (validate_cmd lines and errors counter = real body of cli.validate under CliRunner with stubbed open/validate)",
                   bad == 0, "%d outcome lists, %d disagreements%s" % (len(cases), bad, "; first: %r" % (first,) if first else ""))
    if bad:
        ctx.violation("correspondence:O-cli/validate-logic", "model and cli.validate disagree: %r" % (first,), {"kind": "validate-corr", "case": first}, no_input=True)
    ctx.count("validate_logic_cases", len(cases))
    ctx.count("traces_validated_against_impl", len(cases))
    # the OS side of sys.exit(n): status = n mod 256
    ns = [0, 1, 2, 254, 255, 256, 257, 300, 511, 512, 513, 768, 1000, 65535, 65536]
    real = pmap(lambda n: subprocess.run([PY, "-c", "import sys; sys.exit(%d)" % n]).returncode, ns)
    mo = run_model("cli", [(8, [n]) for n in ns])
    st = [o[0] for o in mo]
    ctx.obligation("correspondence O-cli/exit-status (exit_status n = OS status of a real process calling sys.exit(n))", st == real, "n=%r model=%r real=%r" % (ns, st, real))
    if st != real:
        ctx.violation("correspondence:O-cli/exit-status", "model exit status %r, real %r for sys.exit(%r)" % (st, real, ns), {"kind": "exit"}, no_input=True)
    ctx.count("traces_validated_against_impl", len(ns))


def corr_get_mapfiles(ctx, d):
    import mappyfile.cli as mcli
    pats_list = [["*.map"], ["ok*.map", "ok1.map"], ["nomatch*"], ["adir.map", "ok1.map"], ["inv*.map", "*.map"], []]
    cwd = os.getcwd()
    bad = 0; cases = []
    try:
        os.chdir(d)
        for pats in pats_list:
            table = [(p, [(mf, os.path.isdir(mf)) for mf in glob.glob(p)]) for p in dict.fromkeys(pats)]
            cases.append((pats, table, mcli.get_mapfiles(pats)))
    finally:
        os.chdir(cwd)
    toks = []
    for pats, table, _ in cases:
        t = [len(pats)]
        for p in pats:
            t += codec.enc_str(p)
        t.append(len(table))
        for p, l in table:
            t += codec.enc_str(p) + [len(l)]
            for mf, isd in l:
                t += codec.enc_str(mf) + [1 if isd else 0]
        toks.append((7, t))
    outs = run_model("cli", toks)
    for (pats, table, im), o in zip(cases, outs):
        rd = codec.Reader(o); n = rd.z()
        if [rd.str() for _ in range(n)] != im:
            bad += 1
    ctx.obligation("correspondence O-cli/get_mapfiles (order, duplicates, directories skipped)", bad == 0, "%d pattern lists, %d disagreements" % (len(cases), bad))
    if bad:
        ctx.violation("correspondence:O-cli/get_mapfiles", "model and cli.get_mapfiles disagree", {"kind": "get_mapfiles"}, no_input=True)
    ctx.count("traces_validated_against_impl", len(cases))


# ---------------------------------------------------------------- schema (hunter d)
def schema_once(tmp, version):
    from mappyfile.validator import Validator
    d = os.path.join(tmp, "schema"); os.makedirs(d, exist_ok=True)
    out = "schema_%s.json" % ("none" if version is None else str(version).replace(".", "_"))
    rc, so, se = cli(["schema", out] + ([] if version is None else ["--version", str(version)]), d)
    want = json.dumps(Validator().get_versioned_schema(version), sort_keys=True, indent=4).encode("utf-8")
    if rc != 0:
        return "exit status %d: %s" % (rc, se[-300:])
    got = open(os.path.join(d, out), "rb").read()
    if got != want:
        return "file differs from json.dumps(get_versioned_schema(%r), sort_keys=True, indent=4): %d vs %d bytes" % (version, len(got), len(want))
    return None


def hunt_schema(ctx, tmp):
    versions = [None, 7.6, 8.2] if ctx.quick() else [None, 5.6, 6.0, 6.2, 6.4, 7.0, 7.2, 7.4, 7.6, 8.0, 8.2, 8.4]
    for v in versions:
        ctx.note_case("schema%r" % v)
        r = schema_once(tmp, v)
        if r is not None:
            ctx.violation("schema:output-differs", "`mappyfile schema OUT%s`: %s" % ("" if v is None else " --version %s" % v, r), {"kind": "schema", "version": v})
    ctx.count("schema_invocations", len(versions))


# ---------------------------------------------------------------- entry points
def working_tree_used():
    p = subprocess.run([PY, "-c", "import mappyfile, mappyfile.cli; print(mappyfile.cli.__file__)"], env=cli_env(), stdout=subprocess.PIPE, stderr=subprocess.PIPE)
    return p.stdout.decode().strip()


def stage(ctx, name, f, *args):
    """Run one runner; a crash (the implementation raising where the harness does not expect it) is reported
    and the remaining runners still run."""
    import traceback
    try:
        return f(*args)
    except Exception:
        tb = traceback.format_exc()
        ctx.obligation("runner %s completed" % name, False, tb[-1200:])
        ctx.violation("runner-crash:" + name, "runner %s crashed: %s" % (name, tb[-600:]), {"kind": "crash", "stage": name}, no_input=True)
        return None


def run(ctx):
    rng = ctx.rng
    where = working_tree_used()
    ctx.obligation("CLI subprocesses import mappyfile from the working tree under check", where.startswith(os.path.realpath(REPO)) or where.startswith(REPO), where)
    tmp = tempfile.mkdtemp(prefix="c20_", dir="/tmp")
    try:
        if ctx.model_ok:
            stage(ctx, "corr_codec", corr_codec, ctx, rng)
            stage(ctx, "corr_newlines_escape", corr_newlines_escape, ctx, rng)
            stage(ctx, "corr_validate_logic", corr_validate_logic, ctx, rng)
        stage(ctx, "text_roundtrip", text_roundtrip, ctx, rng, tmp)
        d = stage(ctx, "hunt_validate", hunt_validate, ctx, rng, tmp)
        if ctx.model_ok and d:
            stage(ctx, "corr_get_mapfiles", corr_get_mapfiles, ctx, d)
        stage(ctx, "hunt_format", hunt_format, ctx, rng, tmp)
        stage(ctx, "hunt_schema", hunt_schema, ctx, tmp)
        stage(ctx, "hunt_docs", hunt_docs, ctx, rng, tmp)
    finally:
        shutil.rmtree(tmp, ignore_errors=True)


def replay(ctx, body):
    r = body["replay"]
    kind = r.get("kind")
    tmp = tempfile.mkdtemp(prefix="c20_replay_", dir="/tmp")
    try:
        if kind == "text-roundtrip":
            from mappyfile.parser import Parser
            s = "".join(chr(c) for c in r["text"])
            got = impl_file_roundtrip(Parser(), os.path.join(tmp, "t.map"), s)
            bad = got != ("ok", r["text"])
            print("replay: _save + open_file of %r gives %r: %s" % (s, got, "CHANGED" if bad else "unchanged"))
            return 1 if bad else 0
        if kind == "doc":
            fails = doc_check(r["text"], [(tuple(p), v) for p, v in r["vals"]], r.get("lopts", {}), r.get("popts", {}), tmp)
            for fp, what in fails:
                print("replay: (%s) %s" % (fp, what))
            print("replay: document property", "FAILS" if fails else "holds")
            return 1 if fails else 0
        if kind == "validate":
            specs = [("ok", 1), ("ok", 2), ("unparseable",), ("notutf8",), ("versioned",), ("include",)] + [("invalid", n) for n in (1, 2, 255, 256, 257, 300, 512, 513)]
            d = write_validate_files(tmp, specs)
            rc, so = validate_once(d, r["patterns"], r["version"], r["expand"])
            fails = judge_validate(d, r["patterns"], r["version"], r["expand"], rc, so)[0]
            for fp, what in fails:
                print("replay: (%s) %s" % (fp, what))
            print("replay: validate property", "FAILS" if fails else "holds", "(exit status %d)" % rc)
            return 1 if fails else 0
        if kind == "format":
            d = write_format_inputs(tmp)
            res = format_once(d, r["input"], r["options"], "r", r.get("cwd_mode", 0))
            print("replay: format", "DIFFERS: %s" % res if res else "agrees")
            return 1 if res else 0
        if kind == "include":
            res = include_check(os.path.join(tmp, "incdir"))
            print("replay: include", "FAILS: %s" % res if res else "agrees")
            return 1 if res else 0
        if kind == "schema":
            res = schema_once(tmp, r["version"])
            print("replay: schema", "DIFFERS: %s" % res if res else "agrees")
            return 1 if res else 0
        print("replay: nothing to replay for kind %r (a proof/correspondence obligation: re-run ./check C20)" % kind)
        return 1
    finally:
        shutil.rmtree(tmp, ignore_errors=True)
