"""C07: validation verdict equals the schema's verdict.

Correspondence: O-val (extracted validate = real Validator.validate: error path,
failing validator keyword, mappyfile's message, line/column, or the exception
class - compared as ordered lists, the model reproduces jsonschema's schema-dict
order), O-rx (every schema regex vs re.search), convert_lowercase.
Hunters (independent oracle = the Draft-4 evaluator of _valgen.Spec, transcribed
from coq/Spec/Draft4.v, over the lower-cased JSON form with $refs resolved from
the raw files): verdict, message coverage of injected faults, never raises, case
and hidden-key insensitivity, list = pointwise."""
import copy, glob, itertools, json, os, re
from checklib import codec
from checklib.model import run_model
from checks import _valcommon as vc
from checks import _valgen as vg

MANIFEST = dict(
    technique="Coq: induction on schema trees (iter_errors empty iff Draft-4 conforms), path lemmas for create_message, idempotence of lower-casing, reflection over the generated schema files; extracted-model correspondence with fault injection; independent Draft-4 oracle in Python",
    text=("Coq theorems (Props/C07.v, 18, all closed) over Model/Schema.v (jsonschema Draft4Validator.iter_errors on the keyword census, with error paths and validator keywords, over the $ref-expanded tree) and Model/Validator.v: "
          "C07_iter_errors_complete [U] (for every well-formed schema tree and every instance: no errors iff Spec/Draft4.conforms; induction on the schema, all 19 keywords) and C07_iter_errors_complete_refs (with $ref: the proxy view equals the specification's inlining); "
          "C07_shipped_schemas_wf [F]; C07_validate_verdict [U] (validate returns [] iff the lower-cased JSON form conforms); "
          "C07_messages_cover [U] (one message per error, in order, naming the last key of its path or the __type__ of the object it points to, any depth) and C07_errors_are_located [U] (violating keyword values / list elements / unknown / missing keywords are reported at the right place); "
          "C07_validate_never_raises_partial / C07_validate_list_never_raises_partial [U] (validate returns for every root dictionary of the loads/create shape - lower-case unique keys, string __type__ on the root and on dict members of lists, no position records - "
          "via C07_error_paths_valid [U] (every error path leads to a node of the instance) and the correspondence between instance paths and the original dictionary; that loads produces that shape is now a theorem for every text and flag combination (C07_loaded_dictionaries_are_shaped, Proofs/C07U.v) up to __position__ entries, "
          "so validate never raises on any loaded dictionary without a __position__ key (C07_validate_loaded_never_raises; the guard is refuted when dropped: an attribute spelled __type__ or a METADATA/CONFIG key spelled __position__), and on loaded dictionaries with well-formed position records against the shipped MAP schema (partial: that every loaded dictionary has such records is not proved; the bridge proof found the AttributeError repaired by commit b8dd688); create() output is checked by the hunter, "
          "dictionaries with __position__ are covered by C07_validate_never_raises_guarded [U] and O-val; since commit 4abf0be the former counterexample MAP SIZE 10.5 20 is an Example returning a message naming SIZE); "
          "C07_convert_lowercase_idempotent and C07_verdict_case_insensitive [U]; C07_hidden_keys_admitted [F]+[U]; C07_list_is_pointwise [U]. "
          "Tie to validator.py/jsonschema/jsonref/re: extracted model vs real validate (ordered messages: path, validator keyword, mappyfile message, line/column, exception class) on generated valid documents of every block type, "
          "single and double faults of six kinds at depth 0-5 and list indices, corpus files with and without positions, lists of dictionaries; every schema regex vs re.search."),
    design_ref="DESIGN.md 7/C07",
    note="C07: jsonschema 4.26 iter_errors, jsonref and re.search are modelled (tied by O-val/O-rx); jsonschema's message text is not modelled (paths, validator keyword and mappyfile's own message are); add_comments=True not modelled; U+03A3 excluded from str.lower; tuples holding strings (not produced by loads) are outside the model. DESIGN's [F] faults_detected (fault product through the full model in the kernel) is not built; the fault product is explored by O-val and the hunter.")

COMPONENTS = ["validator"]
TARGETS = []
RULE = ("generated schema-valid documents (root map and every other block type) ; single and double faults of the kinds enum / range / arity / type / unknown keyword / missing required "
        "injected at a random block object of a generated document (any depth / list index); corpus files parsed with mappyfile.open (quick: a sample); per document also its case-swapped, hidden-key-decorated and "
        "list-wrapped variants; regexes: designed samples + all strings up to length 3 (4 thorough) over a per-pattern alphabet. Non-trivial: a document with at least one injected fault or a corpus file; distinct by JSON text.")

BLOCK_ROOTS = ["layer", "class", "style", "label", "web", "legend", "scalebar", "symbol", "outputformat", "reference", "querymap", "join", "cluster", "grid", "feature", "leader", "scaletoken", "composite"]


# ------------------------------------------------------------------ O-rx
def schema_patterns(raw):
    ps = set()

    def walk(n):
        if isinstance(n, dict):
            if isinstance(n.get("pattern"), str):
                ps.add(n["pattern"])
            if isinstance(n.get("patternProperties"), dict):
                ps.update(n["patternProperties"].keys())
            for v in n.values():
                walk(v)
        elif isinstance(n, list):
            for v in n:
                walk(v)
    for j in raw.values():
        walk(j)
    return sorted(ps)


def rx_strings(p, maxlen):
    alpha = sorted(set(c for c in p if c not in "^$\\.*?+{}|,") | set("a0G\n_"))
    alpha = [c for c in alpha if not c.isdigit() or c == "0"][:9]
    out = set()
    for n in range(0, maxlen + 1):
        for t in itertools.product(alpha, repeat=n):
            out.add("".join(t))
    samples = list(vg.PATTERN_SAMPLES.get(p, [])) + ["__type__", "__position__", "__comments__", "__x__", "__ab", "____", "__A__", "#" + "a" * 5, "#" + "a" * 7, "#" + "a" * 9,
                                                    "#abcdeg", "'#abc'", '"#aabbcc"', "'#abcd'", "&#;", "&#12", "rectangles", "ellipse"]
    for s in list(samples):
        for m in (s + "\n", s + "\n\n", "\n" + s, s[:-1], s[1:], s + s, "x" + s, s + "x", s.upper(), s[:1] + "\n" + s[1:]):
            samples.append(m)
    out.update(samples)
    return sorted(out)


def run_orx(ctx, raw):
    pats = schema_patterns(raw)
    maxlen = ctx.budget(3, 4)
    cases = []
    for p in pats:
        for s in rx_strings(p, maxlen):
            cases.append((p, s))
    outs = run_model("validator", [(73, codec.enc_str(p) + codec.enc_str(s)) for p, s in cases])
    bad = 0
    for (p, s), o in zip(cases, outs):
        want = 1 if re.search(p, s) else 0
        if o != [want]:
            bad += 1
            ctx.violation("correspondence:O-rx", "re.search(%r, %r) = %s, model %s" % (p, s, want, o), {"pattern": p, "string": s}, no_input=True)
    ctx.obligation("correspondence O-rx (every schema regex = its recogniser)", bad == 0, "%d patterns, %d strings, %d disagreements" % (len(pats), len(cases), bad))
    ctx.count("rx_cases", len(cases))
    ctx.coverage["patterns"] = pats


# ------------------------------------------------------------------ documents
def has_sigma(x):
    if isinstance(x, dict):
        return any(has_sigma(k) or has_sigma(v) for k, v in x.items())
    if isinstance(x, (list, tuple)):
        return any(has_sigma(v) for v in x)
    return isinstance(x, str) and ("Σ" in x)


def tuple_strings(x):
    """a tuple holding a string: convert_lowercase skips tuples (the model has no tuples)."""
    if isinstance(x, dict):
        return any(tuple_strings(v) for v in x.values())
    if isinstance(x, tuple):
        return any(isinstance(v, str) or tuple_strings(v) for v in x)
    if isinstance(x, list):
        return any(tuple_strings(v) for v in x)
    return False


def encodable(x):
    try:
        t = codec.enc_value(x)
    except Exception:  # noqa
        return False
    return all(abs(z) < 2 ** 61 for z in t) and not has_sigma(x) and not tuple_strings(x)


def corpus_files():
    fs = []
    for pat in ("tests/sample_maps/*.map", "tests/mapfiles/*.map", "docs/examples/**/*.map", "tests/samples/*.map"):
        fs += glob.glob(os.path.join(vc.REPO, pat), recursive=True)
    return sorted(set(fs))


def hidden_decorate(d, rng):
    """same dictionary with extra hidden __name__ keys in its block objects."""
    d = copy.deepcopy(d)

    def walk(x):
        if isinstance(x, dict):
            if "__type__" in x and rng.random() < 0.7:
                x["__" + rng.choice(["note", "zz", "verif"]) + "__"] = rng.choice(["x", 1, {"line": 1, "column": 2}, ["a"]])
            for k, v in list(x.items()):
                if not k.startswith("__"):
                    walk(v)
        elif isinstance(x, list):
            for v in x:
                walk(v)
    walk(d)
    return d


def positions_variant(d, rng):
    """the document re-read from its printed text with positions (and maybe comments), or None."""
    import mappyfile
    try:
        text = mappyfile.dumps(d)
        return mappyfile.loads(text, expand_includes=False, include_position=True, include_comments=rng.random() < 0.3)
    except Exception:  # noqa
        return None


def root_ok(d):
    """the hypothesis of C07_validate_never_raises_partial (coq/Proofs/C07Paths.v root_ok), re-stated in
    Python: keys stored lower-case, no __position__ records, a string __type__ on the root and on every
    dictionary that is a member of a list."""
    def typed(x):
        return not isinstance(x, dict) or isinstance(x.get("__type__"), str)

    def shaped(x):
        if isinstance(x, dict):
            return all(isinstance(k, str) and k.lower() == k for k in x) and "__position__" not in x and all(shaped(v) for v in x.values())
        if isinstance(x, (list, tuple)):
            return all(shaped(v) and typed(v) for v in x)
        return True
    return isinstance(d, dict) and typed(d) and shaped(d)


def has_positions(x):
    if isinstance(x, dict):
        return "__position__" in x or any(has_positions(v) for v in x.values())
    if isinstance(x, (list, tuple)):
        return any(has_positions(v) for v in x)
    return False


def classify_raise(val, d, exc):
    """fingerprint of a raising validate: the known list-valued-keyword shape or a new one."""
    if exc == "TypeError" and val.rec:
        path = val.rec[-1][0]
        if path and isinstance(path[-1], int):
            try:
                x = d
                for k in path:
                    x = x[k]
                if not isinstance(x, dict):
                    return "validate:list-valued-keyword-raises"
            except Exception:  # noqa
                pass
    return "validate:raises:%s" % exc


def run(ctx):
    import mappyfile
    rng = ctx.rng
    raw = vc.raw_schemas()
    spec = vg.Spec(raw)
    gen = vg.Gen(raw, rng)
    if ctx.model_ok:
        run_orx(ctx, raw)

    docs = []      # (label, doc, schema_name, fault descriptions)
    cpath = os.path.join(os.path.dirname(os.path.dirname(os.path.dirname(os.path.abspath(__file__)))), "corpus", "C07.json")
    if os.path.exists(cpath):
        for c in json.load(open(cpath)):
            docs.append(("corpus-regression", mappyfile.loads(c["text"]) if "text" in c else c["doc"], c.get("schema_name", "map"), []))
    # fixed probes (the known defect and its neighbours)
    for t in ("MAP SIZE 10.5 20 END", "MAP LEGEND KEYSIZE 1 10 END END", "MAP EXTENT 1 2 3 END", "MAP IMAGECOLOR 1 2 END",
              "MAP LAYER TYPE POINT FEATURE POINTS 1 2 3 END END END END", "MAP WEB FOO 1 END END", "MAP LAYER NAME 'x' END LAYER TYPE bad END END",
              "MAP SYMBOL TYPE ELLIPSE POINTS 1 1 END FILLED TRUE END END", "MAP NAME 'ok' END",
              "MAP\n WEB\n  FOO 1\n END\n LEGEND\n  KEYSIZE 1 10\n  BAR 2\n END\n SCALEBAR\n  UNITS bad\n  LABEL\n   NOSUCH 1\n  END\n END\nEND",
              "MAP\n LAYER\n  TYPE POINT\n  CLASS\n   LEADER\n    GRIDSTEP 'x'\n    NOSUCH 1\n   END\n   STYLE\n    COLOR 1 2 300\n    OFFSET 'a' 2\n   END\n  END\n  FEATURE\n   POINTS 1 2 'x' 4 END\n  END\n END\nEND",
              "MAP\n QUERYMAP\n  SIZE 1 'b'\n  NOSUCH 1\n END\n REFERENCE\n  EXTENT 1 2 3\n  NOSUCH 2\n END\nEND",
              # faults inside repeatable keywords / repeated POINTS: with positions the block records a list per keyword
              "MAP LAYER PROCESSING 5 END END", "MAP LAYER TYPE POINT PROCESSING 'A=1' PROCESSING 5 PROCESSING 'B=2' END END",
              "MAP OUTPUTFORMAT NAME 'o' FORMATOPTION 'A=1' FORMATOPTION 7 END END",
              "MAP LAYER TYPE POINT FEATURE POINTS 1 2 END POINTS 3 'x' END END END END", "MAP LAYER TYPE POINT COMPFILTER 1 COMPFILTER 'blur(2)' END END"):
        for pos in (False, True):
            try:
                docs.append(("probe", mappyfile.loads(t, include_position=pos), "map", []))
            except Exception:  # noqa
                pass
    # directed: a wrong-typed / out-of-range member inside a list-of-lists keyword (SYMBOL POINTS: the error path ends in
    # TWO list indices; reachable only through the dictionary API, a string inside SYMBOL POINTS does not parse)
    for pos in (False, True):
        for j, k, bad in ((1, 1, "abc"), (0, 0, "x"), (2, 0, True), (1, 0, [1])):
            try:
                d = mappyfile.loads("MAP NAME 'm' SYMBOL NAME 's' TYPE VECTOR POINTS 1 1 2 3 4 5 END END LAYER NAME 'l' TYPE POINT END END", include_position=pos)
                pts = [list(q) for q in d["symbols"][0]["points"]]
                pts[j][k] = bad
                d["symbols"][0]["points"] = pts
                docs.append(("fault", d, "map", [dict(kind="type", path=["symbols", 0], key="points", names="points", object_level=False, in_list=True)]))
                s0 = mappyfile.loads("SYMBOL NAME 's' TYPE VECTOR POINTS 1 1 2 3 4 5 END END", include_position=pos)
                pts = [list(q) for q in s0["points"]]
                pts[j][k] = bad
                s0["points"] = pts
                docs.append(("fault", s0, "symbol", [dict(kind="type", path=[], key="points", names="points", object_level=False, in_list=True)]))
            except Exception:  # noqa
                pass
    n_valid = ctx.budget(40, 800)
    for i in range(n_valid):
        try:
            docs.append(("valid", gen.document(), "map", []))
        except vg.GenFail:
            pass
    for t in BLOCK_ROOTS:
        for _ in range(ctx.budget(2, 25)):
            try:
                docs.append(("valid-root", gen.value(raw[t + ".json"], 2), t, []))
            except vg.GenFail:
                pass
    n_fault = ctx.budget(150, 3000)
    for i in range(n_fault):
        try:
            d = gen.document()
        except vg.GenFail:
            continue
        fs = []
        for _ in range(1 if rng.random() < 0.7 else 2):
            f = vg.inject(gen, raw, d, rng.choice(vg.FAULT_KINDS), rng)
            if f:
                fs.append(f)
        if fs:
            docs.append(("fault", d, "map", fs))
    # positions: re-read printed text with positions
    for lab, d, nm, fs in list(docs[:ctx.budget(60, 600)]):
        if nm == "map" and lab in ("valid", "fault") and not any(f["in_list"] for f in fs):
            d2 = positions_variant(d, rng)
            if d2 is not None:
                docs.append((lab + "+pos", d2, nm, []))
    files = corpus_files()
    if ctx.quick():
        files = rng.sample(files, min(len(files), 35))
    n_unparse = 0
    for fn in files:
        try:
            d = mappyfile.open(fn, include_position=rng.random() < 0.5, include_comments=rng.random() < 0.3)
        except Exception:  # noqa
            n_unparse += 1
            continue
        docs.append(("file:" + os.path.relpath(fn, vc.REPO), d, "map", []))
        if isinstance(d, dict) and d.get("__type__") == "map" and rng.random() < 0.7:
            d2 = copy.deepcopy(d)
            f = vg.inject(gen, raw, d2, rng.choice(vg.FAULT_KINDS), rng)
            if f:
                docs.append(("file+fault:" + os.path.relpath(fn, vc.REPO), d2, "map", [f]))
    for t in ["map"] + BLOCK_ROOTS:
        try:
            docs.append(("create", mappyfile.create(t), t, []))
        except Exception:  # noqa
            pass
    docs = [x for x in docs if encodable(x[1])]
    ctx.count("corpus_files_unparseable_skipped", n_unparse)

    # ---------------------------------------------------------------- O-val
    val = vc.recording_validator()
    real = []
    for lab, d, nm, fs in docs:
        r = vc.canon_msgs(vc.real_validate(d, nm, None, validator=val))
        real.append((r, list(val.rec)))
    if ctx.model_ok:
        outs = vc.model_validate([(d, nm, None) for lab, d, nm, fs in docs])
        bad = 0
        for (lab, d, nm, fs), (r, rec), m in zip(docs, real, outs):
            if r != vc.canon_msgs(m):
                bad += 1
                ctx.violation("correspondence:O-val", "model and real validate disagree on a %s document: real %s model %s" % (lab, str(r)[:300], str(m)[:300]),
                              {"kind": "doc", "doc": json.loads(json.dumps(d)), "schema_name": nm}, no_input=True)
        ctx.obligation("correspondence O-val (ordered messages: path, validator keyword, message, line/column, exception class)", bad == 0,
                       "%d documents, %d disagreements" % (len(docs), bad))
        lc = [d for lab, d, nm, fs in docs[:ctx.budget(80, 800)]]
        louts = run_model("validator", [(75, codec.enc_value(d)) for d in lc])
        lbad = 0
        for d, o in zip(lc, louts):
            if codec.Reader(o).value() != codec.canon(val.convert_lowercase(copy.deepcopy(d))):
                lbad += 1
                ctx.violation("correspondence:convert_lowercase", "model and real convert_lowercase disagree", {"kind": "doc", "doc": json.loads(json.dumps(d))}, no_input=True)
        ctx.obligation("correspondence convert_lowercase", lbad == 0, "%d documents" % len(lc))
    ctx.count("traces_validated_against_impl", len(docs))

    # ---------------------------------------------------------------- hunters
    hist = {}
    n_raise = 0
    n_rootok = n_plain = 0
    for (lab, d, nm, fs), (r, rec) in zip(docs, real):
        kind = lab.split(":")[0]
        hist[kind] = hist.get(kind, 0) + 1
        if not has_positions(d):
            n_plain += 1
            if root_ok(d):
                n_rootok += 1
            elif kind in ("probe", "file", "create", "corpus-regression"):
                # a loads / create product outside the hypothesis of the never-raises theorem
                ctx.violation("shape:loads-output-not-root_ok", "a %s dictionary (no positions) violates the shape assumed by C07_validate_never_raises_partial" % lab,
                              {"kind": "doc", "doc": json.loads(json.dumps(d)), "schema_name": nm}, no_input=True)
        ctx.note_case(json.dumps(d, default=str), nontrivial=bool(fs) or kind.startswith("file"))
        replay = {"kind": "doc", "doc": json.loads(json.dumps(d)), "schema_name": nm}
        want = spec.conforms(raw[nm + ".json"], vg.lower_json(d))
        if r[0] == "exc":
            n_raise += 1
            val.rec = rec
            ctx.violation(classify_raise(val, d, r[1]), "validate raises %s instead of returning messages (%s document)" % (r[1], lab), replay)
            continue
        # verdict
        if (r[1] == []) != want:
            fp = "verdict:%s" % ("false-error:" + ",".join(sorted({str(p[-1]) if p else "root" for p, *_ in r[1]})[:2]) if want else "missed-error")
            ctx.violation(fp, "validate %s a %s document whose lower-cased JSON form %s the schema (Draft-4 evaluator)"
                          % ("reports errors for" if r[1] else "accepts", lab, "conforms to" if want else "violates"), replay)
        if kind == "valid" and r[1] != []:
            ctx.violation("verdict:generated-valid-rejected", "a schema-valid generated document gets messages %s" % (r[1][:2],), replay)
        # the add_comments option writes the messages into the dictionary as comments: it must return the same messages
        # and never raise, whatever number of faults share a keyword or an object
        n_seen = hist.get("__addc", 0)
        if r[1] and n_seen < ctx.budget(150, 3000):
            hist["__addc"] = n_seen + 1
            from mappyfile.validator import Validator as _V
            try:
                dc = copy.deepcopy(d)
                m1 = _V().validate(dc, schema_name=nm, add_comments=True)
                m2 = _V().validate(dc, schema_name=nm, add_comments=True)       # and once more on the annotated dictionary
                plain_msgs = _V().validate(copy.deepcopy(d), schema_name=nm)
                if [(m.get("error"), m.get("message")) for m in m1] != [(m.get("error"), m.get("message")) for m in plain_msgs]:
                    ctx.violation("add-comments:messages-differ", "validate(add_comments=True) returns other messages than validate() (%s document)" % lab, replay)
                elif len(m2) != len(m1):
                    ctx.violation("add-comments:second-run-differs", "validating the annotated dictionary again gives %d messages instead of %d" % (len(m2), len(m1)), replay)
            except Exception as ex:
                ctx.violation("add-comments:raises:" + type(ex).__name__, "validate(add_comments=True) raises %s instead of returning messages (%s document)" % (type(ex).__name__, lab), replay)
        # message coverage for injected faults
        texts = [m for _, _, m, _, _ in r[1]]
        for f in fs:
            name = f["names"]
            if name is None:
                continue
            if ("ERROR: Invalid value in %s" % name.upper()) not in texts:
                ctx.violation("coverage:%s" % f["kind"], "fault %s at %s (%s) has no message naming %s; messages: %s"
                              % (f["kind"], f["path"], f["key"], name.upper(), texts[:4]), replay)
        # case, hidden keys, list
        v2 = vc.canon_msgs(vc.real_validate(vg.swap_case(d, rng), nm, None, validator=val))
        if v2[0] != "ok" or [m for _, _, m, _, _ in v2[1]] != texts:
            ctx.violation("case:verdict-changes", "changing the letter case of keys/values changes the messages: %s vs %s" % (texts[:3], str(v2)[:200]), replay)
        v3 = vc.canon_msgs(vc.real_validate(hidden_decorate(d, rng), nm, None, validator=val))
        if v3[0] != "ok" or [m for _, _, m, _, _ in v3[1]] != texts:
            ctx.violation("hidden:verdict-changes", "adding hidden __name__ keys changes the messages: %s vs %s" % (texts[:3], str(v3)[:200]), replay)
    # list = pointwise
    ok_docs = [(d, nm, r) for (lab, d, nm, fs), (r, rec) in zip(docs, real) if r[0] == "ok" and nm == "map"]
    n_list = 0
    list_cases = []
    for _ in range(ctx.budget(40, 600)):
        if len(ok_docs) < 3:
            break
        pick = rng.sample(ok_docs, rng.choice([0, 1, 2, 3]))
        got = vc.canon_msgs(vc.real_validate([copy.deepcopy(d) for d, _, _ in pick], "map", None, validator=val))
        want = ("ok", [m for _, _, r in pick for m in r[1]])
        n_list += 1
        list_cases.append(([d for d, _, _ in pick], got))
        if got != want:
            ctx.violation("list:not-pointwise", "validate(list) differs from the concatenation of validate(d) over its members",
                          {"kind": "list", "docs": [json.loads(json.dumps(d)) for d, _, _ in pick]})
    if ctx.model_ok and list_cases:
        louts = vc.model_validate([(ds, "map", None) for ds, _ in list_cases])
        lbad = 0
        for (ds, got), m in zip(list_cases, louts):
            if got != vc.canon_msgs(m):
                lbad += 1
                ctx.violation("correspondence:O-val-list", "model and real validate(list of %d dictionaries) disagree: real %s model %s" % (len(ds), str(got)[:200], str(m)[:200]),
                              {"kind": "list", "docs": [json.loads(json.dumps(d)) for d in ds]}, no_input=True)
        ctx.obligation("correspondence O-val on lists of root dictionaries", lbad == 0, "%d lists" % len(list_cases))
    ctx.count("list_cases", n_list)
    ctx.count("documents", len(docs))
    ctx.count("documents_raising", n_raise)
    ctx.count("documents_without_positions", n_plain)
    ctx.count("documents_meeting_root_ok_hypothesis", n_rootok)
    ctx.coverage["document_kinds"] = hist
    fk = {}
    for lab, d, nm, fs in docs:
        for f in fs:
            key = "%s%s@depth%d" % (f["kind"], "(in list)" if f["in_list"] else "", len([p for p in f["path"] if not isinstance(p, int)]))
            fk[key] = fk.get(key, 0) + 1
    ctx.coverage["fault_histogram"] = fk
    for lab, d, nm, fs in docs:
        if fs:
            ctx.sample({"kind": lab, "faults": [{k: v for k, v in f.items()} for f in fs], "doc": json.loads(json.dumps(d))})
            break
    ctx.sample({"kinds": hist})


def replay(ctx, body):
    r = body["replay"]
    raw = vc.raw_schemas()
    spec = vg.Spec(raw)
    if r.get("kind") == "doc":
        nm = r.get("schema_name", "map")
        want = spec.conforms(raw[nm + ".json"], vg.lower_json(r["doc"]))
        got = vc.real_validate(r["doc"], nm, None)
        print("replay: validate -> %s ; Draft-4 evaluator on the lower-cased form: %s" % (str(got)[:400], "conforms" if want else "violates"))
        if got[0] != "ok":
            return 1
        return 0 if (got[1] == []) == want else 1
    if r.get("kind") == "list":
        one = [vc.real_validate(d, "map", None) for d in r["docs"]]
        got = vc.real_validate(r["docs"], "map", None)
        print("replay: list", got, "pointwise", one)
        return 0 if got == ("ok", [m for x in one for m in x[1]]) else 1
    print("replay: nothing to replay")
    return 1
