"""C05: surface syntax does not change meaning.

Runner: extracted model vs real loads on random surface renderings.
Hunter: the dictionary of a generated document must not depend on keyword case,
separators (spaces, tabs, form feeds, LF, CRLF, # and C comments), quote style,
or on leaving bare-word strings unquoted; corpus files are perturbed between
the implementation's own token boundaries."""
import re
from checklib import parsing
import json
from gens import docs, sweep, harness

MANIFEST = dict(
    technique="Coq universal theorem on the regex/lexer model (case-closure of matching, by induction on the pattern) instantiated by reflection on every keyword pattern of the generated grammar + extracted-model correspondence on random surface renderings",
    text=("Coq (Props/C05.v): [universal] matching a case-closed pattern does not depend on ASCII letter case (lock-step induction over the backtracking matcher); [finite, re-proved against the current grammar] every keyword pattern of every "
          "contextual scanner Lark built is case-closed, hence every case variant of a keyword gets the same token type, and the only case-sensitive terminals are the string/regex terminals with the literal flag suffix i; "
          "[universal] everything the transformer and the retyping hook read from a keyword (lower/upper-cased text) is case-invariant (the hook's former case-sensitive comparison is listed as fixed); ignored terminals never reach the parser; "
          "either quote kind yields the same value. [universal + finite] in every scanner Lark built (root and 56 contextual ones; scanner order and patterns checked by the kernel on the generated grammar) a C comment whose body contains no */, a # comment up to its line end, "
          "a maximal run of blanks and a maximal run of line breaks standing at a token boundary are each consumed as exactly one ignored token (sound first-character analysis of the backtracking matcher, greedy-run and lazy-until-close lemmas); "
          "one scanner (inside {...}) takes a leading space as part of the item. [universal, Proofs/C05U*.v] lexing and parsing read positions only to record them; any sequence of separators in front of ANY text yields the same tokens, the same tree up to positions and, "
          "through loads, the same dictionary (literally when it holds no key spelled __position__; REFUTED otherwise: an attribute spelled __type__ leaks its position record - known finding); two separator sequences between the same two tokens give the same dictionary "
          "provided the lexer reaches that boundary in both texts. PARTIAL: that the preceding token ends where the separator begins is not a theorem (it is false for unpadded C comments after PATH-like values: known finding) - "
          "it is explored by rendering every generated document under many random layouts and by perturbing corpus files between token boundaries, on the real loads and against the extracted model."),
    design_ref="DESIGN.md 7/C05",
    note="C05: only keyword tokens are case-perturbed (enumerated VALUES keep their case in the dictionary by design); bare-word rendering is limited to words that cannot be keywords.")

COMPONENTS = ["parser"]
TARGETS = []
RULE = ("each generated document rendered under the default layout and k random layouts (per-token keyword case, separators from space/tab/FF/LF/CRLF/#-comment/C-comment, quote style per string, bare words); "
        "corpus files with every non-empty inter-token gap replaced by a random padded separator; non-trivial = at least 5 tokens")

SEP_PARTS = [" ", " ", "\t", "\x0c", "\n", "\r\n", " # c\n", " /* c */ ", "  ", "\n\n"]


def random_sep(rng):
    s = "".join(rng.choice(SEP_PARTS) for _ in range(rng.randrange(1, 4)))
    if not s[0].isspace():
        s = " " + s
    if not s[-1].isspace():
        s = s + " "
    return s


def perturb_corpus(rng, text):
    """replace every non-empty gap between the implementation's own tokens by a random padded separator"""
    toks, res, _ = parsing.impl_parse(text, False)
    if res[0] == "exn" or not toks:
        return None
    # token start offsets from line/column
    lines = text.split("\n")
    starts = [0]
    for l in lines:
        starts.append(starts[-1] + len(l) + 1)
    out = []
    pos = 0
    for (ty, val, line, col, el, ec) in toks:
        off = starts[line - 1] + col - 1
        if text[off:off + len(val)] != val:
            return None
        gap = text[pos:off]
        if pos == 0:
            out.append("" if not gap.strip() else gap)     # leading comments kept as they are
        elif gap == "":
            out.append("")
        else:
            out.append(random_sep(rng))
        out.append(val)
        pos = off + len(val)
    out.append(text[pos:] if text[pos:].strip() == "" else "\n" + text[pos:])
    return "".join(out)


def run(ctx):
    import mappyfile
    rng = ctx.rng
    documents = harness.gen_documents(rng, ctx.budget(120, 2000), max_depth=4)
    k_lay = ctx.budget(4, 12)
    all_texts = []
    for doc in documents:
        base_text = docs.render(doc, docs.Layout())[0]
        try:
            base = docs.plain(sweep.fast_loads(base_text))
        except Exception as ex:
            ctx.violation("generated-document-rejected:" + type(ex).__name__, "default rendering rejected: %s" % str(ex)[:150], {"text": base_text})
            continue
        all_texts.append(base_text)
        for j in range(k_lay):
            lay = harness.random_layout(rng)
            if j == 0:
                lay = docs.Layout(rng=rng, case="lower")                 # pure keyword-case variant
            elif j == 1:
                lay = docs.Layout(rng=rng, quote="'")                    # pure quote variant
            elif j == 2:
                lay = docs.Layout(rng=rng, bare_words=True)              # pure bare-word variant
            lay.allow_symbol_case = True                                 # SYMBOL in any case + bare word: fixed finding, must stay fixed
            text = docs.render(doc, lay)[0]
            all_texts.append(text)
            ctx.note_case(text, nontrivial=len(text.split()) >= 5)
            try:
                got = docs.plain(sweep.fast_loads(text) if j else mappyfile.loads(text))
            except Exception as ex:
                clause = "case" if j == 0 else "quote" if j == 1 else "bareword" if j == 2 else "layout"
                ctx.violation("surface-rejected:%s:%s" % (clause, type(ex).__name__), "a surface variant (%s) of an accepted document is rejected: %s" % (clause, str(ex)[:150]),
                              {"text": text, "default_rendering": base_text})
                continue
            if not sweep.same(got, base):
                clause = "case" if j == 0 else "quote" if j == 1 else "bareword" if j == 2 else "layout"
                ctx.violation("surface-changes-dict:" + clause, "the dictionary depends on the surface rendering (%s)" % clause, {"text": text, "default_rendering": base_text})
    # ---- corpus perturbation
    corp = [t for _, t in harness.corpus_files() if len(t) < 15000]
    rng.shuffle(corp)
    n_pert = 0
    for t in corp[:ctx.budget(40, 436)]:
        try:
            base = docs.plain(sweep.fast_loads(t))
        except Exception:
            continue
        for _ in range(ctx.budget(1, 3)):
            p = perturb_corpus(rng, t)
            if p is None:
                continue
            n_pert += 1
            all_texts.append(p)
            ctx.note_case(p)
            try:
                got = docs.plain(sweep.fast_loads(p))
            except Exception as ex:
                ctx.violation("corpus-perturbation-rejected:" + type(ex).__name__, "a corpus file with perturbed separators is rejected: %s" % str(ex)[:150], {"text": p})
                continue
            if not sweep.same(got, base):
                ctx.violation("corpus-perturbation-changes-dict", "a corpus file loads differently after perturbing white space / comments between tokens", {"text": p, "original": t})
    ctx.count("corpus_perturbations", n_pert)
    # ---- the token-retyping hook (bare word after SYMBOL, GRID after NAME) under every spelling of the keywords:
    # the whole text in upper / lower / title / alternating / random case, keyword by keyword
    def spell(word, mode):
        if mode == "upper":
            return word.upper()
        if mode == "lower":
            return word.lower()
        if mode == "title":
            return word[:1].upper() + word[1:].lower()
        if mode == "alt":
            return "".join(c.upper() if i % 2 == 0 else c.lower() for i, c in enumerate(word))
        if mode == "alt2":
            return "".join(c.lower() if i % 2 == 0 else c.upper() for i, c in enumerate(word))
        return "".join(c.upper() if rng.random() < 0.5 else c.lower() for c in word)
    hook_templates = [["STYLE", "SYMBOL", "=circle", "SIZE", "=5", "END"], ["STYLE", "SIZE", "=5", "SYMBOL", "=circle", "END"],
                      ["CLASS", "STYLE", "SYMBOL", "=star", "COLOR", "=1 2 3", "END", "END"], ["CLASS", "SYMBOL", "=mysym", "NAME", "='x'", "END"],
                      ["LAYER", "NAME", "=grid", "TYPE", "=POINT", "END"], ["MAP", "LAYER", "NAME", "=grid", "STATUS", "=ON", "END", "END"],
                      ["MAP", "SYMBOL", "NAME", "=grid", "TYPE", "=ELLIPSE", "END", "END"]]
    n_hook = 0
    for tpl in hook_templates:
        ref_text = " ".join(w[1:] if w.startswith("=") else w for w in tpl)
        try:
            ref = docs.plain(sweep.fast_loads(ref_text))
        except Exception:
            continue                                  # not a valid upper-case document: outside the quantifier
        for mode in ("lower", "title", "alt", "alt2", "rand", "rand", "rand"):
            t = " ".join(w[1:] if w.startswith("=") else spell(w, mode) for w in tpl)
            n_hook += 1
            ctx.note_case(t)
            try:
                got = docs.plain(sweep.fast_loads(t))
                if not sweep.same(got, ref):
                    ctx.violation("surface-changes-dict:case:hook", "keyword case changes the dictionary: %r loads as %r, %r as %r" % (t, got, ref_text, ref), {"text": t, "reference": ref_text})
            except Exception as ex:
                ctx.violation("surface-rejected:case:" + type(ex).__name__, "a case variant of an accepted document is rejected: %r (%s)" % (t, str(ex)[:120]), {"text": t, "reference": ref_text})
    ctx.count("hook_case_probes", n_hook)
    # ---- unpadded separators: explicit probes (the separator clause is known to fail here)
    probes = [("LAYER DATA a/b/* c */ END", "LAYER DATA a/b END", "sep:path-swallows-c-comment"),
              ("LAYER NAME foo# c\n END", "LAYER NAME foo END", "sep:hash-after-bareword"),
              ("MAP/* c */NAME/* c */'x'/* c */END", "MAP NAME 'x' END", "sep:c-comment-unpadded"),
              ("MAP NAME 'x'# c\nEND", "MAP NAME 'x' END", "sep:hash-after-string")]
    # a keyword spelled __type__ (found by the universal separator proof, whose unguarded form is false exactly
    # here): composite() files the attribute as a block and its position record leaks into the plain dictionary
    probes.append(("\nMAP __type__ x END", "MAP __type__ x END", "sep:attr-named-__type__-leaks-position"))
    for a, b, fp in probes:
        ctx.note_case(a)
        try:
            raw = fp.endswith("leaks-position")
            da = sweep.fast_loads(a) if raw else docs.plain(sweep.fast_loads(a))
            db = sweep.fast_loads(b) if raw else docs.plain(sweep.fast_loads(b))
            if raw:
                da, db = json.loads(json.dumps(da)), json.loads(json.dumps(db))
            if not sweep.same(da, db):
                ctx.violation(fp, "an unpadded comment changes the dictionary: %r loads as %r" % (a, da), {"text": a, "reference": b})
        except Exception as ex:
            ctx.violation(fp, "an unpadded comment makes the text unparseable: %r (%s)" % (a, type(ex).__name__), {"text": a, "reference": b})
    # ---- correspondence on the renderings
    if ctx.model_ok:
        sel = all_texts if len(all_texts) < 1500 else rng.sample(all_texts, 1500)
        mouts = harness.model_loads([(t, False, False) for t in sel])
        n_bad = 0
        for t, m in zip(sel, mouts):
            a = harness.impl_loads(t)
            if not harness.same_canon(a, m) and not (a[0] == "exn" and m[0] == "exn" and a[1] == m[1]):
                n_bad += 1
                ctx.violation("correspondence:O-dict-surface", "loads of model and implementation differ on a surface rendering", {"text": t}, no_input=True)
        ctx.count("traces_validated_against_impl", len(sel))
        ctx.obligation("correspondence O-dict on %d surface renderings" % len(sel), n_bad == 0, "%d disagreements" % n_bad)
    ctx.sample({"rendering": all_texts[1][:300] if len(all_texts) > 1 else ""})
    ctx.sample({"rendering": all_texts[-1][:300]})


def replay(ctx, body):
    r = body["replay"]
    a = docs.plain(sweep.fast_loads(r["text"]))
    ref = r.get("default_rendering") or r.get("reference") or r.get("original")
    b = docs.plain(sweep.fast_loads(ref)) if ref else a
    print("replay:", "same" if sweep.same(a, b) else "DIFFER")
    return 0 if sweep.same(a, b) else 1
