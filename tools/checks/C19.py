"""C19: grammar, keyword tables and schemas describe one vocabulary.

The quantifier is finite and is enumerated completely: every (object type x
keyword x value alternative) slot of the raw schema files, at the root and
nested in its parent chain, in first / middle / last position.  The Coq side
pushes the same product through the whole model by vm_compute (Props/C19.v);
this module runs it through the real API (hunter), compares model and
implementation slot by slot (runner), and checks the remaining clauses
(schema lookup, validation, singleton/plural consistency, defaults, create)."""
import copy
from collections import OrderedDict
from checklib import codec
from gens import docs, sweep, harness

MANIFEST = dict(
    technique="kernel-checked exhaustive evaluation (vm_compute reflection) of the finite slot product through the Coq model, regenerated from schemas and grammar on every run + the same product through the real API",
    text=("The property's quantifier is finite. Coq (Props/C19.v): the 2540 slot documents generated from the current schema files (every object type x keyword x value alternative, written the way MapServer writes it, "
          "at the root and nested in the parent chain, first and last in the block) are pushed through the complete model (lexer generated from Lark's compiled grammar, LR driver with mappyfile's hook, tree builder, transformer) "
          "by vm_compute in eight shards; the theorem states that every one loads to exactly its intended structure except an explicit list of slots, each a known finding; every block type the generated grammar can open parses at the root. "
          "A schema, grammar or table change regenerates Gen/ and re-proves (or breaks) these theorems. The check module enumerates the same product (plus the middle position) through the real loads, "
          "the printer's schema lookup and the validator, checks singleton/plural consistency across transformer, printer, auto-creating dict and every parent schema, validates every declared default against its own keyword schema "
          "with an independent Draft-4 evaluator, and create(type, version) for every type. PARTIAL: the printer- and validator-side clauses are decided by exhaustive enumeration through the real code, not by a Coq theorem."),
    design_ref="DESIGN.md 7/C19",
    note="C19: the document generator tools/gens/docs.py (schema walk, 'the way MapServer writes it', intended structure) is part of the trusted base of this property.")

COMPONENTS = ["parser"]
TARGETS = []
RULE = "complete enumeration of the slot product (object type x keyword x alternative x context/position); non-trivial = every slot document; exhaustive"


def slot_fp(ot, it):
    if it.shape.startswith("enum:") and ot + "." + it.key in ("outputformat.imagemode",):
        return "slot:%s.%s=%s" % (ot, it.key, it.shape[5:])
    return "slot:%s.%s" % (ot, it.key)


def approx_equal(a, b, path=""):
    """C01's allowed differences: case of enum words, number vs numeric string"""
    if isinstance(a, dict) and isinstance(b, dict):
        return list(a.keys()) == list(b.keys()) and all(approx_equal(a[k], b[k]) for k in a)
    if isinstance(a, (list, tuple)) and isinstance(b, (list, tuple)):
        return len(a) == len(b) and all(approx_equal(x, y) for x, y in zip(a, b))
    if isinstance(a, str) and isinstance(b, str):
        return a == b or a.lower() == b.lower()
    if isinstance(a, bool) or isinstance(b, bool):
        return a is b
    if isinstance(a, (int, float)) and isinstance(b, (int, float)):
        return a == b
    if isinstance(a, (int, float)) and isinstance(b, str) or isinstance(b, (int, float)) and isinstance(a, str):
        return str(a) == str(b)
    return a == b


def run(ctx):
    import mappyfile
    from mappyfile.pprint import PrettyPrinter
    from mappyfile.validator import Validator
    from mappyfile.ordereddict import CaseInsensitiveOrderedDict as CI
    raw = docs.raw()
    pp = PrettyPrinter()
    val = Validator()
    n_docs = 0
    all_docs = []
    # ---- the slot product through the real API
    for ot in docs.object_types():
        for it in docs.slot_items(ot):
            failures = sweep.check_slot(ot, it)
            for name, doc in sweep.slot_contexts(ot, it):
                n_docs += 1
                text = docs.render(doc, docs.Layout())[0]
                all_docs.append((ot, it, name, text))
                ctx.note_case("%s.%s:%s:%s" % (ot, it.key, it.shape, name))
            for name, stage, det, text in failures[:1]:
                ctx.violation(slot_fp(ot, it), "%s %s (%s) %s in context %s: %s" % (ot.upper(), it.key.upper(), it.shape, stage, name, det), {"text": text, "context": name})
            # printer's schema lookup finds the keyword
            if not pp.get_attribute_properties(ot, it.key):
                ctx.violation("lookup:%s.%s" % (ot, it.key), "get_attribute_properties does not find %s.%s" % (ot, it.key), {"type": ot, "key": it.key})
            # the one-slot document validates against its own type's schema
            if not failures:
                doc = docs.Block(ot, [it], False)
                text = docs.render(doc, docs.Layout())[0]
                try:
                    d = sweep.fast_loads(text)
                    msgs = [m for m in val.validate(d, schema_name=ot) if "is a required property" not in m.get("error", "")]
                except Exception as ex:
                    msgs = [{"message": "validate raised %s" % type(ex).__name__, "error": str(ex)[:100]}]
                if msgs:
                    ctx.violation("validate:%s.%s:%s" % (ot, it.key, it.shape.split(":")[0]),
                                  "%s %s written as %s does not validate: %s" % (ot.upper(), it.key.upper(), it.shape, msgs[0].get("error", "")[:150]),
                                  {"text": text, "messages": msgs[:3]})
    ctx.count("slot_documents", n_docs)
    ctx.coverage["exhaustive"] = True
    # ---- correspondence: model vs implementation on every slot document
    if ctx.model_ok:
        mouts = harness.model_loads([(t, False, False) for _, _, _, t in all_docs])
        n_bad = 0
        for (ot, it, name, t), m in zip(all_docs, mouts):
            a = harness.impl_loads(t)
            if not harness.same_canon(a, m) and not (a[0] == "exn" and m[0] == "exn" and a[1] == m[1]):
                n_bad += 1
                ctx.violation("correspondence:O-dict-slots", "model and implementation disagree on a slot document", {"text": t, "impl": repr(a)[:500], "model": repr(m)[:500]}, no_input=True)
        ctx.count("traces_validated_against_impl", len(all_docs))
        ctx.obligation("correspondence O-dict on the %d slot documents" % len(all_docs), n_bad == 0, "%d disagreements" % n_bad)
    # ---- block types: schema exists, minimal block prints and parses at the root
    import mappyfile.tokens as T
    grammar_types = [t for t in docs.object_types()] + ["metadata", "validation", "connectionoptions"]
    for ty in grammar_types:
        ctx.note_case("root:" + ty)
        if ty + ".json" not in raw:
            ctx.violation("no-schema:" + ty, "block type %s has no schema file" % ty, {"type": ty})
        try:
            d = sweep.fast_loads(ty.upper() + " END")
            t2 = mappyfile.dumps(d)
            d2 = sweep.fast_loads(t2)
            if docs.plain(d) != docs.plain(d2):
                ctx.violation("root-roundtrip:" + ty, "minimal %s block changes on print + parse" % ty, {"text": t2})
        except Exception as ex:
            ctx.violation("root-block:" + ty, "minimal %s block cannot be parsed/printed at the root: %s" % (ty, type(ex).__name__), {"type": ty})
    # ---- singleton / plural consistency across transformer, printer, auto-creating dict and parent schemas
    for ot in docs.object_types():
        for key, ty, singleton in docs.children_of(ot):
            ctx.note_case("child:%s>%s" % (ot, ty))
            child = docs.Block(ty, [], singleton)
            doc = sweep.nest(ot, docs.Block(ot, [child], False)) if ot != "map" else docs.Block(ot, [child], False)
            text = docs.render(doc, docs.Layout())[0]
            try:
                d = sweep.fast_loads(text)
            except Exception as ex:
                ctx.violation("child:%s>%s" % (ot, ty), "%s inside %s is rejected: %s" % (ty, ot, type(ex).__name__), {"text": text})
                continue
            node = d
            chain = sweep.parent_chain(ot) or [(ot, False)]
            for cty, csing in chain[1:]:
                node = node[cty] if csing else node[docs.plural(cty)][0]
            stored_plural = docs.plural(ty) in node and isinstance(node[docs.plural(ty)], list)
            stored_single = ty in node and isinstance(node[ty], dict)
            if singleton and not stored_single or (not singleton) and not stored_plural:
                ctx.violation("singleton-plural:%s>%s" % (ot, ty),
                              "schema %s.json offers %s as %s (key %r) but the transformer stores it under %r" % (ot, ty, "a singleton" if singleton else "a list", key,
                               docs.plural(ty) if stored_plural else ty), {"text": text})
            if not singleton:
                if key != docs.plural(ty):
                    ctx.violation("plural-key:%s>%s" % (ot, ty), "schema key %r differs from the transformer's plural %r" % (key, docs.plural(ty)), {"type": ot})
                if docs.plural(ty) not in T.OBJECT_LIST_KEYS:
                    ctx.violation("object-list-key:" + ty, "%s is repeatable but %r is not in OBJECT_LIST_KEYS" % (ty, docs.plural(ty)), {"type": ty})
                auto = CI(CI)[docs.plural(ty)]
                if auto != []:
                    ctx.violation("autocreate:" + ty, "reading the missing key %r auto-creates %r, not a list" % (docs.plural(ty), auto), {"type": ty})
            try:
                t2 = mappyfile.dumps(d)
                if docs.plain(sweep.fast_loads(t2)) != docs.plain(d):
                    ctx.violation("child-roundtrip:%s>%s" % (ot, ty), "%s inside %s changes on print + parse" % (ty, ot), {"text": text})
            except Exception as ex:
                ctx.violation("child-print:%s>%s" % (ot, ty), "%s inside %s cannot be printed: %s" % (ty, ot, type(ex).__name__), {"text": text})
            # an EMPTY container of repeatable blocks (the auto-creating dict stores [] when the plural key is read, or the
            # last block was removed) is still a container for the printer: nothing is written for it
            if not singleton:
                try:
                    host = docs.Block(ot, [], False)
                    hd = sweep.fast_loads(docs.render(sweep.nest(ot, host) if ot != "map" else host, docs.Layout())[0])
                    node = hd
                    while isinstance(node, dict) and node.get("__type__") != ot:
                        nxt = [v for k, v in node.items() if not k.startswith("__")]
                        node = (nxt[0][0] if isinstance(nxt[0], list) else nxt[0]) if nxt else None
                    if isinstance(node, dict):
                        want = docs.plain(hd)
                        node[docs.plural(ty)]                       # auto-creates []
                        ctx.note_case("empty-container:%s>%s" % (ot, ty))
                        t4 = mappyfile.dumps(hd)
                        if docs.plain(sweep.fast_loads(t4)) != want:
                            ctx.violation("empty-container:%s>%s" % (ot, ty), "an empty %s list in %s changes what is printed: %r" % (docs.plural(ty), ot, t4[:120]), {"type": ot, "key": docs.plural(ty)})
                except Exception as ex:
                    ctx.violation("empty-container:%s>%s" % (ot, ty), "a %s holding an empty %s list cannot be printed and re-read: %s" % (ot, docs.plural(ty), type(ex).__name__), {"type": ot, "key": docs.plural(ty)})
            # a keyword of the PARENT written after the child block is still the parent's keyword: looked up in the
            # parent's schema by the printer (a free string must come out quoted) and kept by print + parse
            child_keys = set((raw.get(ty + ".json") or {}).get("properties") or {})
            after = [it for it in sweep.usable_slots().get(ot, []) if it.shape == "string" and it.kind == "attr" and not it.repeated and it.key not in child_keys
                     and "allOf" not in ((raw.get(ot + ".json") or {}).get("properties") or {}).get(it.key, {})][:2]   # allOf-wrapped slots: C01's known finding
            for it in after:
                doc2 = docs.Block(ot, [docs.Block(ty, [], singleton), it], False)
                if ot != "map":
                    doc2 = sweep.nest(ot, doc2)
                text2 = docs.render(doc2, docs.Layout())[0]
                ctx.note_case("after-child:%s>%s:%s" % (ot, ty, it.key))
                try:
                    d2 = sweep.fast_loads(text2)
                except Exception:
                    continue                     # the slot sweep above reports unparseable positions
                try:
                    t3 = mappyfile.dumps(d2)
                    if docs.plain(sweep.fast_loads(t3)) != docs.plain(d2):
                        ctx.violation("keyword-after-child:%s>%s" % (ot, ty), "%s %s written after a %s block changes on print + parse" % (ot.upper(), it.key.upper(), ty.upper()), {"text": text2, "printed": t3})
                except Exception as ex:
                    ctx.violation("keyword-after-child:%s>%s" % (ot, ty), "%s %s written after a %s block: the printed text is not accepted (%s)" % (ot.upper(), it.key.upper(), ty.upper(), type(ex).__name__), {"text": text2})
    # ---- every declared default is valid for its own keyword
    try:
        from checks._valgen import Spec
        spec = Spec(raw)
    except Exception:
        spec = None
    n_def = 0
    for fn, s in raw.items():
        for k, v in (s.get("properties") or {}).items() if isinstance(s, dict) else []:
            if isinstance(v, dict) and "default" in v:
                n_def += 1
                ctx.note_case("default:%s.%s" % (fn, k))
                dv = v["default"]
                dvl = dv.lower() if isinstance(dv, str) else dv
                if spec is not None and not spec.conforms(v, dvl):
                    ctx.violation("default:%s.%s" % (fn[:-5], k), "default %r of %s.%s is not valid for its own schema" % (dv, fn[:-5], k), {"file": fn, "key": k, "default": dv})
    ctx.count("defaults_checked", n_def)
    # ---- create(type, version)
    for ty in docs.object_types():
        for ver in (None, 6.0, 7.6, 8.0):
            ctx.note_case("create:%s:%s" % (ty, ver))
            try:
                d = mappyfile.create(ty, ver)
                t2 = mappyfile.dumps(d)
                d2 = sweep.fast_loads(t2)
                msgs = [m for m in Validator().validate(d2, schema_name=ty, version=ver) if "required" not in m.get("error", "")]
            except Exception as ex:
                ctx.violation("create:%s" % ty, "create(%r, %r) cannot be printed/re-loaded/validated: %s: %s" % (ty, ver, type(ex).__name__, str(ex)[:120]), {"type": ty, "version": ver})
                continue
            if not approx_equal(docs.plain(d), docs.plain(d2)):
                ctx.violation("create-roundtrip:%s" % ty, "create(%r, %r) changes on print + parse" % (ty, ver), {"type": ty, "version": ver, "text": t2})
            if msgs:
                ctx.violation("create-validate:%s" % ty, "create(%r, %r) does not validate: %s" % (ty, ver, msgs[0].get("error", "")[:150]), {"type": ty, "version": ver, "messages": msgs[:3]})
    ctx.sample({"slot_document": all_docs[0][3], "context": all_docs[0][2]})
    ctx.sample({"slot_document": all_docs[-1][3], "context": all_docs[-1][2]})


def replay(ctx, body):
    t = body["replay"].get("text")
    if not t:
        print("replay: no text in this finding:", body["what"])
        return 0
    try:
        print("replay: loads ->", dict(sweep.fast_loads(t)))
        return 0
    except Exception as ex:
        print("replay: loads raises", type(ex).__name__)
        return 1
