"""C15: INCLUDE expansion equals textual substitution, bounded at five levels.

Correspondence (O-inc): the extracted Coq model of Parser.load_includes, of the
posixpath helpers, of the line helpers and of the three front ends is run on
the same (file system, cwd, fn, text) as the real code in a temp tree.
Hunter: the property against the public API with an independent Python
substitution (own directive reader, own path walk)."""
import os, sys, io, json, shutil, tempfile, itertools, logging, copy, re, time

from checklib import codec
from checklib.model import run_model

MANIFEST = dict(
    technique="Coq proof (structural recursion on the nesting budget, list/string/path lemmas) + extracted-model correspondence in temp directory trees",
    text=("Coq theorems (Props/C15.v, 23, all closed): for every file system, absolute working directory, root file name (or none) and text, the "
          "function-by-function model of Parser.load_includes equals textual substitution (Spec/Subst.v) for the line reader the code implements, "
          "names resolved against the ROOT file's folder at every nesting level, budget five; the includes-dict + pop/insert loop is proved equal to a "
          "map over lines; the string-level posixpath computation (isabs/dirname/join/abspath-normpath) is proved to denote the specification's "
          "location; fuel 6 is never exhausted; expansion succeeds iff the include tree is complete and at most five files deep, a chain of six and "
          "every cycle is an error (ValueError when no file is missing), a missing file is IOError, the first failing line decides; the expansion is free "
          "of directives, so open(root) hands the Mapfile parser the same text as loads(flattened) from any working directory; with an absolute root "
          "name the working directory is irrelevant; with expand_includes=False the text reaches the parser untouched (transformer/printer half: hunter "
          "only, hence _partial).  The property's own directive reader (either quote kind, trailing comment, any blanks) equals the code's under an "
          "explicit boolean guard (name without white space, hash sign, outer quote characters); the unguarded statements are refuted in Coq by "
          "witnesses (quoted name with a blank or a hash sign, bare INCLUDE, keyword that merely starts with include).  The model is tied to parser.py / "
          "utils.py by running the extracted model and the real code on random include trees in temp directories (open, load, loads; several working "
          "directories), on all short path strings and on all short directive lines; the extracted specification is cross-checked against an "
          "independent Python substitution, which is what the hunter compares the real API with."),
    design_ref="DESIGN.md 7/C15",
    note=("C15: posixpath, str methods, text-mode newline translation and the kernel path walk are modelled (Model/Includes.v): no symlinks, every "
          "directory on a path exists, no NUL/surrogates in names, UTF-8 decoding not modelled. The transformer/printer half of the "
          "expand_includes=False clause is covered by the hunter only."))

COMPONENTS = ["includes"]
TARGETS = []
RULE = ("include trees cut out of generated Mapfiles at block / keyword-line boundaries (fan-out <= 4, depth 0..7, nested sub-directories, relative / "
        "./ / dir/../ / absolute / double-slash names, double-quoted / single-quoted / bare names, keyword case, trailing comments, LF / CRLF), plus "
        "cycles, missing files, a systematic depth-chain family 0..7, histories in one process at the same absolute paths (included files rewritten with other content / nesting, deleted, a different tree under the same names; fresh API calls and a reused Parser), and correspondence-only dirty trees; loaded through open (absolute and relative "
        "root name), load (named file object, StringIO) and loads from differing working directories. non-trivial = the root text reaches at least one "
        "INCLUDE line; distinct by hash of (files, root, cwd, mode). Pure helpers: all path strings over {/ . a b} up to length 6 (7 thorough), all "
        "directive lines of up to 4 (5 thorough) pieces over a 15-piece alphabet.")
EXPLANATION = ("Model = Spec/Subst is a Coq theorem; the runs tie the model to the Python source and validate the specification's reading "
               "against an independent Python oracle and the real API.")

ROOT = os.path.dirname(os.path.dirname(os.path.dirname(os.path.abspath(__file__))))
PY_WS = "".join(chr(c) for c in range(0x110000) if chr(c).isspace())

def exc_class(ex):
    """Canonical class name: OSError family folded (IOError is OSError)."""
    if isinstance(ex, OSError):
        return "OSError"
    return type(ex).__name__


# ---------------------------------------------------------------------------
# independent oracle: directive reader, path walk, substitution
# ---------------------------------------------------------------------------
class TooDeep(Exception):
    pass


class Missing(Exception):
    pass


_KW = [("i", "I"), ("n", "N"), ("c", "C"), ("l", "L"), ("u", "U"), ("d", "D"), ("e", "E")]


def read_directive(line):
    """Name of the file when `line` is an INCLUDE directive on its own line, else None."""
    s = line.strip(PY_WS)
    if len(s) < 8:
        return None
    for ch, pair in zip(s[:7], _KW):
        if ch not in pair:
            return None
    rest = s[7:]
    if rest[0] not in PY_WS:
        return None
    rest = rest.lstrip(PY_WS)
    if not rest:
        return None
    q = rest[0]
    if q in "\"'":
        j = rest.find(q, 1)
        if j < 0:
            return None
        name, tail = rest[1:j], rest[j + 1:]
    elif q == "#":
        return None
    else:
        j = 0
        while j < len(rest) and rest[j] not in PY_WS and rest[j] != "#":
            j += 1
        name, tail = rest[:j], rest[j:]
    tail = tail.lstrip(PY_WS)
    if tail and tail[0] != "#":
        return None
    return name


def walk_place(base, name):
    """Location (list of names from /) denoted by `name` seen from folder `base`."""
    here = [] if name.startswith("/") else list(base)
    for seg in name.split("/"):
        if seg in ("", "."):
            continue
        if seg == "..":
            if here:
                here.pop()
        else:
            here.append(seg)
    return here


def place_of_dir(path):
    return walk_place([], path)


def read_place(place, translate):
    p = "/" + "/".join(place)
    if not os.path.isfile(p):
        raise Missing(p)
    with io.open(p, "rb") as f:
        t = f.read().decode("utf-8")
    if translate:
        t = t.replace("\r\n", "\n").replace("\r", "\n")
    return t


def flatten(text, base, budget, translate):
    out = []
    for line in text.split("\n"):
        name = read_directive(line)
        if name is None:
            out.append(line)
            continue
        if budget == 0:
            raise TooDeep()
        content = read_place(walk_place(base, name), translate)
        out.append(flatten(content, base, budget - 1, translate))
    return "\n".join(out)


def oracle(text, base, translate=False):
    try:
        return ("ok", flatten(text, base, 5, translate))
    except TooDeep:
        return ("err", "ValueError")
    except Missing:
        return ("err", "OSError")


# ---------------------------------------------------------------------------
# generated Mapfile documents (trees of keyword lines and blocks)
# ---------------------------------------------------------------------------
def L(s):
    return ["line", s]


def B(header, children):
    return ["block", header, children]


def gen_doc(rng):
    def style():
        ch = [L("COLOR %d %d %d" % (rng.randrange(256), rng.randrange(256), rng.randrange(256)))]
        if rng.random() < 0.6:
            ch.append(L("WIDTH %d" % rng.randrange(1, 9)))
        if rng.random() < 0.3:
            ch.append(L('OUTLINECOLOR "#%02x%02x%02x"' % (rng.randrange(256), rng.randrange(256), rng.randrange(256))))
        return B("STYLE", ch)

    def label():
        ch = [L("SIZE %d" % rng.randrange(6, 14)), L("COLOR 0 0 %d" % rng.randrange(256))]
        if rng.random() < 0.4:
            ch.append(style())
        return B("LABEL", ch)

    def klass(i):
        ch = [L('NAME "class %d"' % i)]
        if rng.random() < 0.5:
            ch.append(L('EXPRESSION "v%d"' % rng.randrange(9)))
        for _ in range(rng.randrange(0, 3)):
            ch.append(style())
        if rng.random() < 0.3:
            ch.append(label())
        return B("CLASS", ch)

    def layer(i):
        ch = [L('NAME "layer%d"' % i), L("TYPE %s" % rng.choice(["POLYGON", "LINE", "POINT"])), L("STATUS ON")]
        if rng.random() < 0.5:
            ch.append(L('DATA "data/shape%d"' % rng.randrange(99)))
        for j in range(rng.randrange(0, 3)):
            ch.append(L('PROCESSING "KEY%d=%d"' % (j, rng.randrange(9))))
        if rng.random() < 0.4:
            ch.append(B("PROJECTION", [L('"init=epsg:%d"' % rng.choice([4326, 3857, 2157]))]))
        if rng.random() < 0.4:
            ch.append(B("METADATA", [L('"wms_title" "t%d"' % i), L('"gml_include_items" "all"')]))
        for k in range(rng.randrange(0, 3)):
            ch.append(klass(k))
        return B("LAYER", ch)

    ch = [L('NAME "m%d"' % rng.randrange(999)), L("SIZE %d %d" % (rng.randrange(100, 900), rng.randrange(100, 900))),
          L("EXTENT -180 -90 180 90"), L("UNITS DD")]
    if rng.random() < 0.5:
        ch.append(L("IMAGECOLOR 255 255 %d" % rng.randrange(256)))
    if rng.random() < 0.5:
        ch.append(B("PROJECTION", [L('"proj=longlat"'), L('"datum=WGS84"'), L('"no_defs"')]))
    if rng.random() < 0.6:
        ch.append(B("WEB", [L('IMAGEPATH "/tmp/"'), B("METADATA", [L('"wms_title" "x"'), L('"wms_srs" "EPSG:4326"'), L('"include_note" "n"')])]))
    for i in range(rng.randrange(0, 4)):
        ch.append(layer(i))
    return [B("MAP", ch)]


COMPOSITE_KINDS = ("MAP", "LAYER", "CLASS", "STYLE", "LABEL", "WEB")


def containers(nodes, kind, allowed, out):
    """All child lists reachable without passing through an include node."""
    if allowed is None or kind in allowed:
        out.append(nodes)
    for n in nodes:
        if n[0] == "block":
            containers(n[2], n[1], allowed, out)
    return out


def has_inc(n):
    return n[0] == "inc" or (n[0] == "block" and any(has_inc(x) for x in n[2]))


def runs(nodes):
    """Maximal runs (i, j) of nodes that neither are nor contain an include (cutting one out keeps the planned depth and fan-out)."""
    out, i = [], 0
    while i < len(nodes):
        if has_inc(nodes[i]):
            i += 1
            continue
        j = i
        while j < len(nodes) and not has_inc(nodes[j]):
            j += 1
        out.append((i, j))
        i = j
    return out


DIRS = ["", "inc", "inc/deep", "inc/deep/er", "lib", "../shared", "../shared/x"]
PLAIN = {"kw": "INCLUDE", "quote": '"', "gap": " ", "lead": None, "trailer": "", "form": "rel"}


def gen_style(rng, plain_p=0.25):
    if rng.random() < plain_p:
        return dict(PLAIN)
    return {"kw": rng.choice(["INCLUDE", "INCLUDE", "include", "Include", "iNcLuDe"]),
            "quote": rng.choice(['"', '"', "'", ""]),
            "gap": rng.choice([" ", " ", "  ", "\t", " \t "]),
            "lead": rng.choice([None, None, "", "\t", "      "]),
            "trailer": rng.choice(["", "", " ", "  # shared part", "# c", "\t#'q' \"d\" #x", " #"]),
            "form": rng.choice(["rel", "rel", "dotrel", "updown", "abs", "dslash"])}


class Tree:
    """files[i] = dict(path=<relative to the scratch root>, nodes, nl, final_nl, ghost); files[0] is the root file."""

    def __init__(self):
        self.files = []
        self.root_dir = "proj"

    def clone(self):
        return copy.deepcopy(self)


def gen_tree(rng, depth, kind="ok", allowed=None, feature=None, root_dir=None):
    """Cut a generated document into an include tree whose longest chain has `depth` files below the root."""
    t = Tree()
    t.root_dir = root_dir or rng.choice(["proj", "proj/maps", "w1/w2/w3"])
    used = set()

    def new_path(i):
        d = rng.choice(DIRS)
        base = rng.choice(["part%d.map", "l-%d.inc", "f%d", "Layer_%d.MAP"]) % i
        if feature == "ws" and i == 1:
            base = "has space %d.map" % i
        if feature == "hash" and i == 1:
            base = "a#b%d.map" % i
        p = os.path.normpath(os.path.join(t.root_dir, d, base))
        while p in used:
            p = p + "x"
        used.add(p)
        return p

    def make_file(nodes, remaining, is_root):
        idx = len(t.files)
        f = {"path": os.path.join(t.root_dir, "root.map") if is_root else new_path(idx), "nodes": nodes,
             "nl": rng.choice(["\n", "\n", "\r\n"]), "final_nl": rng.random() < 0.7, "ghost": False}
        t.files.append(f)
        if remaining > 0:
            k = rng.randint(1, 4)
            for c in range(k):
                conts = [x for x in containers(f["nodes"], "TOP" if not is_root else "ROOT", allowed, []) if runs(x)]
                if not conts:
                    break
                cont = rng.choice(conts)
                i, j = rng.choice(runs(cont))
                a = rng.randrange(i, j)
                b = rng.randrange(a + 1, j + 1)
                sub = cont[a:b]
                child_remaining = remaining - 1 if c == 0 else rng.randint(0, remaining - 1)
                child = make_file(sub, child_remaining, False)
                st = gen_style(rng)
                if feature in ("ws", "hash") and child == 1:
                    st["quote"] = rng.choice(['"', "'"])
                    st["form"] = "rel"
                cont[a:b] = [["inc", child, st]]
        return idx

    doc = gen_doc(rng)
    if allowed is not None:
        # expand_includes=False cases: only the root file matters, directives inside composites only
        make_file(doc, 1 if depth > 0 else 0, True)
    else:
        make_file(doc, depth, True)
    # bare names only where the name is made of safe characters
    for f in t.files:
        for n in iter_incs(f["nodes"]):
            st = n[2]
            if st["quote"] == "":
                tgt = t.files[n[1]]["path"]
                if not re.fullmatch(r"[A-Za-z0-9_./-]+", tgt) or st["form"] in ("abs", "dslash"):
                    st["quote"] = '"'
    if allowed is None and kind == "ok" and rng.random() < 0.3:
        # an include of an EMPTY file (zero bytes, or a lone line break; possibly itself only including an empty
        # file): by substitution it contributes nothing
        e1 = {"path": new_path(len(t.files)), "nodes": [], "nl": "\n", "final_nl": rng.random() < 0.4, "ghost": False}
        t.files.append(e1)
        target = len(t.files) - 1
        if rng.random() < 0.3:
            e2 = {"path": new_path(len(t.files)), "nodes": [["inc", target, dict(PLAIN)]], "nl": "\n", "final_nl": False, "ghost": False}
            t.files.append(e2)
            target = len(t.files) - 1
        host = rng.choice([f for f in t.files[:-1] if f["nodes"]] or [t.files[0]])
        blocks = [n for n in host["nodes"] if n[0] == "block"]
        where = rng.choice(blocks)[2] if blocks and rng.random() < 0.7 else host["nodes"]
        where.insert(rng.randrange(0, len(where) + 1), ["inc", target, dict(PLAIN, quote='"')])
    if kind == "cycle":
        # some include of a deepest file points back to an ancestor (or to its own file)
        incs = [(fi, n) for fi, f in enumerate(t.files) for n in iter_incs(f["nodes"])]
        if incs:
            fi, n = rng.choice(incs)
            n[1] = rng.choice([fi, 0, fi]) if fi != 0 or rng.random() < 0.5 else 0
            if n[2]["quote"] == "":
                n[2]["quote"] = '"'
        else:
            t.files[0]["nodes"].append(["inc", 0, dict(PLAIN)])
    if kind == "missing":
        incs = [(fi, n) for fi, f in enumerate(t.files) for n in iter_incs(f["nodes"])]
        if incs:
            fi, n = rng.choice(incs)
            t.files[n[1]]["ghost"] = True
        else:
            g = {"path": os.path.join(t.root_dir, "nowhere.map"), "nodes": [], "nl": "\n", "final_nl": True, "ghost": True}
            t.files.append(g)
            t.files[0]["nodes"].append(["inc", len(t.files) - 1, dict(PLAIN)])
    return t


def iter_incs(nodes):
    for n in nodes:
        if n[0] == "inc":
            yield n
        elif n[0] == "block":
            for x in iter_incs(n[2]):
                yield x


def iter_incs_kind(nodes, kind):
    """(include node, kind of the enclosing block)"""
    for n in nodes:
        if n[0] == "inc":
            yield n, kind
        elif n[0] == "block":
            for x in iter_incs_kind(n[2], n[1]):
                yield x


def chain_tree(depth, form, root_dir, quote='"', nl="\n"):
    """Systematic family: root -> c1 -> ... -> c<depth>, a keyword line in the first and the last file."""
    t = Tree()
    t.root_dir = root_dir

    def inc(i):
        st = dict(PLAIN)
        st["form"] = form
        st["quote"] = quote
        return ["inc", i, st]
    inner = [L('NAME "chain"')] + ([inc(1)] if depth > 0 else [])
    t.files.append({"path": os.path.join(root_dir, "root.map"), "nodes": [B("MAP", inner)], "nl": nl, "final_nl": True, "ghost": False})
    for i in range(1, depth + 1):
        nodes = []
        if i == 1:
            nodes.append(L("MAXSIZE %d" % (4096 + depth)))
        nodes.append(inc(i + 1) if i < depth else L("SIZE %d %d" % (100 + i, 100 + i)))
        path = os.path.normpath(os.path.join(root_dir, ["", "inc", "inc/deep"][i % 3], "c%d.map" % i))
        t.files.append({"path": path, "nodes": nodes, "nl": nl, "final_nl": i % 2 == 0, "ghost": False})
    return t


TMP = "{TMP}"


def inc_name(t, target_idx, st):
    tgt = t.files[target_idx]["path"]
    rel = os.path.relpath(os.path.join("/", tgt), os.path.join("/", t.root_dir))
    form = st["form"]
    if form == "rel":
        return rel
    if form == "dotrel":
        return "./" + rel
    if form == "updown":
        return "inc/deep/../../" + rel
    if form == "abs":
        return TMP + "/" + tgt
    if form == "dslash":
        return "/" + TMP + "/" + tgt
    raise ValueError(form)


def reachable(t):
    """Indices of the files reachable from the root file through include nodes."""
    seen, todo = set(), [0]
    while todo:
        i = todo.pop()
        if i in seen:
            continue
        seen.add(i)
        if not t.files[i]["ghost"]:
            todo += [n[1] for n in iter_incs(t.files[i]["nodes"])]
    return seen


def render(t):
    """-> {relative path: text with the scratch-root placeholder} for the files reachable from the root"""
    out = {}
    live = reachable(t)
    for fi, f in enumerate(t.files):
        if f["ghost"] or fi not in live:
            continue
        lines = []

        def emit(nodes, ind):
            for n in nodes:
                if n[0] == "line":
                    lines.append(" " * ind + n[1])
                elif n[0] == "block":
                    lines.append(" " * ind + n[1])
                    emit(n[2], ind + 2)
                    lines.append(" " * ind + "END")
                else:
                    st = n[2]
                    lead = " " * ind if st["lead"] is None else st["lead"]
                    lines.append(lead + st["kw"] + st["gap"] + st["quote"] + inc_name(t, n[1], st) + st["quote"] + st["trailer"])
        emit(f["nodes"], 0)
        out[f["path"]] = f["nl"].join(lines) + (f["nl"] if f["final_nl"] else "")
    return out


ALL_DIRS = ["proj", "proj/maps", "w1/w2/w3", "other/place"]


def materialise(files, tmp):
    """Write {relpath: text} under tmp (binary, UTF-8, newlines exactly as given); create the standard directories."""
    for rd in ALL_DIRS:
        for d in DIRS + ["inc/deep/er"]:
            os.makedirs(os.path.normpath(os.path.join(tmp, rd, d)), exist_ok=True)
    for rel, text in files.items():
        p = os.path.join(tmp, rel)
        os.makedirs(os.path.dirname(p), exist_ok=True)
        with io.open(p, "wb") as f:
            f.write(text.replace(TMP, tmp).encode("utf-8"))


def fs_items(tmp):
    """The scratch tree as (location, decoded raw characters) pairs."""
    items = []
    for dp, dn, fnames in os.walk(tmp):
        dn.sort()
        for n in sorted(fnames):
            p = os.path.join(dp, n)
            with io.open(p, "rb") as f:
                items.append((place_of_dir(p), f.read().decode("utf-8")))
    return items


def enc_case(items, cwd, fn, text):
    out = [len(items)]
    for loc, content in items:
        out.append(len(loc))
        for c in loc:
            out += codec.enc_str(c)
        out += codec.enc_str(content)
    out += codec.enc_str(cwd)
    out += [0] if fn is None else [1] + codec.enc_str(fn)
    out += codec.enc_str(text)
    return out


def dec_res(toks):
    if not toks or toks[0] == -1:
        return ("bad", list(toks))
    if toks[0] == 0:
        return ("ok", codec.Reader(toks[1:]).str())
    return ("err", {4: "IndexError", 8: "ValueError", 10: "OSError", 7: "TypeError", 99: "OutOfFuel"}.get(toks[1], "exn%d" % toks[1]))


# ---------------------------------------------------------------------------
# running the real code
# ---------------------------------------------------------------------------
class Captured(Exception):
    def __init__(self, text):
        self.text = text


class _Stub:
    def parse_interactive(self, text):
        raise Captured(text)


class Impl:
    """Handles on the implementation: one reused real Parser (its load_includes /
    parse_file / load / parse are what utils.open / load / loads call after
    constructing a Parser), and a capture of the text handed to the LALR parser."""

    def __init__(self):
        import mappyfile
        from mappyfile.parser import Parser
        import mappyfile.utils as U
        self.mappyfile = mappyfile
        self.U = U
        self.Parser = Parser
        self.parser = Parser()

        class CapParser(Parser):
            def _create_lalr_parser(self):
                return _Stub()
        self.CapParser = CapParser
        shared = {}

        class FastParser(Parser):
            def _create_lalr_parser(self):
                if self.include_comments:
                    return Parser._create_lalr_parser(self)
                if "lalr" not in shared:
                    shared["lalr"] = Parser._create_lalr_parser(self)
                return shared["lalr"]
        self.FastParser = FastParser

    def load_includes(self, text, fn):
        try:
            return ("ok", self.parser.load_includes(text, fn=fn))
        except Exception as ex:
            return ("err", exc_class(ex))

    def front_text(self, mode, expand, root, text, name):
        """Text that utils.open/load/loads hand to the LALR parser (Parser class swapped for one with a capturing lalr)."""
        U = self.U
        old = U.Parser
        U.Parser = self.CapParser
        try:
            try:
                if mode == 0:
                    U.open(root, expand_includes=expand)
                elif mode == 1:
                    fp = io.StringIO(text)
                    if name is not None:
                        fp.name = name
                    U.load(fp, expand_includes=expand)
                else:
                    U.loads(text, expand_includes=expand)
            except Captured as c:
                return ("ok", c.text)
            except Exception as ex:
                return ("err", exc_class(ex))
            return ("err", "no-parse")
        finally:
            U.Parser = old

    def fast_call(self, mode, root, text, name, expand=True):
        """utils.open / load / loads themselves, with the Parser class swapped for a subclass that shares one
        compiled grammar (Lark.open costs 0.15 s per call otherwise); everything else is the real code."""
        U = self.U
        old = U.Parser
        U.Parser = self.FastParser
        try:
            if mode == 0:
                return U.open(root, expand_includes=expand)
            if mode == 1:
                fp = io.StringIO(text)
                if name is not None:
                    fp.name = name
                return U.load(fp, expand_includes=expand)
            return U.loads(text, expand_includes=expand)
        finally:
            U.Parser = old

    def fast(self, mode, root, text, name, expand=True):
        try:
            return ("ok", json.dumps(self.fast_call(mode, root, text, name, expand), sort_keys=False, default=str))
        except Exception as ex:
            return ("exc", exc_class(ex))

    def reused(self, mode, root, text, name, expand=True):
        """ONE long-lived Parser object (what a caller that keeps a Parser around does): parse_file / load / parse."""
        from mappyfile.transformer import MapfileToDict
        p = self.parser
        try:
            if mode == 0:
                tree = p.parse_file(root)
            elif mode == 1:
                fp = io.StringIO(text)
                if name is not None:
                    fp.name = name
                tree = p.load(fp)
            else:
                tree = p.parse(text)
            return ("ok", json.dumps(MapfileToDict().transform(tree), sort_keys=False, default=str))
        except Exception as ex:
            return ("exc", exc_class(ex))

    def api(self, mode, root, text, name, expand=True):
        """The real public API, nothing swapped."""
        mf = self.mappyfile
        try:
            if mode == 0:
                d = mf.open(root, expand_includes=expand)
            elif mode == 1:
                with io.open(root, "r", encoding="utf-8") as fp:
                    d = mf.load(fp, expand_includes=expand)
            else:
                d = mf.loads(text, expand_includes=expand)
            return ("ok", json.dumps(d, sort_keys=False, default=str))
        except Exception as ex:
            return ("exc", exc_class(ex))


# ---------------------------------------------------------------------------
# one tree, several call configurations
# ---------------------------------------------------------------------------
def configs(rng, t, tmp, n):
    """(mode, cwd, root argument, fp name) combinations: open abs / open rel / load named / load unnamed / loads."""
    root_abs = os.path.join(tmp, t.files[0]["path"])
    root_dir = os.path.dirname(root_abs)
    others = [tmp, os.path.join(tmp, "other/place"), os.path.join(tmp, "proj"), os.path.join(tmp, "w1/w2"), root_dir, "/"]
    out = []
    for kind in rng.sample(["open_abs", "open_rel", "load_abs", "load_rel", "load_anon", "loads"], n):
        if kind == "open_abs":
            out.append((kind, 0, rng.choice(others), root_abs, root_abs))
        elif kind == "open_rel":
            cwd = rng.choice(others[:5])
            out.append((kind, 0, cwd, os.path.relpath(root_abs, cwd), None))
        elif kind == "load_abs":
            out.append((kind, 1, rng.choice(others), root_abs, root_abs))
        elif kind == "load_rel":
            cwd = rng.choice(others[:5])
            rel = os.path.relpath(root_abs, cwd)
            out.append((kind, 1, cwd, rel, rel))
        elif kind == "load_anon":
            out.append((kind, 1, root_dir, root_abs, None))
        else:
            out.append((kind, 2, root_dir, root_abs, None))
    return out


def features_of(t):
    """Which unusual surface features the include lines of a tree use."""
    fs = set()
    live = reachable(t)
    for fi, f in enumerate(t.files):
        if f["ghost"] or fi not in live:
            continue
        if f["nl"] != "\n" and any(True for _ in iter_incs(f["nodes"])):
            fs.add("crlf")
        for n in iter_incs(f["nodes"]):
            st = n[2]
            name = inc_name(t, n[1], st)
            if any(c in PY_WS for c in name):
                fs.add("ws-in-quoted-name" if st["quote"] else "ws-in-bare-name")
            if "#" in name:
                fs.add("hash-in-quoted-name" if st["quote"] else "hash-in-bare-name")
            if st["quote"] == "'":
                fs.add("squote")
            if st["quote"] == "":
                fs.add("bare")
            if st["kw"] != "INCLUDE":
                fs.add("kwcase")
            if st["trailer"].strip():
                fs.add("comment")
            if st["form"] != "rel":
                fs.add(st["form"])
            if st["gap"] != " " or st["lead"] is not None:
                fs.add("spacing")
    return fs


def simplifications(t):
    """Candidate smaller / plainer trees (for shrinking a failing case)."""
    live = reachable(t)
    # big steps first: drop an include line, empty a file of its ordinary lines
    for fi, f in enumerate(t.files):
        if fi not in live or f["ghost"]:
            continue
        conts = containers(f["nodes"], "X", None, [])
        for ci, cont in enumerate(conts):
            for ni, n in enumerate(cont):
                if n[0] == "inc":
                    c = t.clone()
                    del containers(c.files[fi]["nodes"], "X", None, [])[ci][ni]
                    yield c
        if fi != 0 and any(n[0] != "inc" for n in f["nodes"]):
            c = t.clone()
            c.files[fi]["nodes"] = [n for n in c.files[fi]["nodes"] if has_inc(n)]
            yield c
    for fi, f in enumerate(t.files):
        if fi not in live or f["ghost"]:
            continue
        incs = list(iter_incs(f["nodes"]))
        for k in range(len(incs)):
            for key in ("trailer", "kw", "gap", "lead", "form", "quote"):
                if incs[k][2][key] != PLAIN[key]:
                    c = t.clone()
                    n = list(iter_incs(c.files[fi]["nodes"]))[k]
                    n[2][key] = PLAIN[key]
                    yield c
        if f["nl"] != "\n":
            c = t.clone(); c.files[fi]["nl"] = "\n"; yield c
        # drop one non-include node anywhere in the file
        conts = containers(f["nodes"], "X", None, [])
        for ci, cont in enumerate(conts):
            for ni, n in enumerate(cont):
                if n[0] != "inc" and not (fi == 0 and cont is f["nodes"]):
                    c = t.clone()
                    cc = containers(c.files[fi]["nodes"], "X", None, [])[ci]
                    del cc[ni]
                    yield c


def shrink_tree(t, fails, max_steps=250):
    if os.environ.get("VERIF_C15_NOSHRINK"):
        return t
    steps = 0
    progress = True
    while progress and steps < max_steps:
        progress = False
        for c in simplifications(t):
            steps += 1
            if steps >= max_steps:
                break
            try:
                bad = fails(c)
            except Exception:
                bad = False
            if bad:
                t = c
                progress = True
                break
    return t


class Scratch:
    """A scratch directory under /tmp that is always removed."""

    def __enter__(self):
        self.tmp = os.path.realpath(tempfile.mkdtemp(prefix="c15_", dir="/tmp"))
        self.old = os.getcwd()
        return self

    def __exit__(self, *a):
        os.chdir(self.old)
        shutil.rmtree(self.tmp, ignore_errors=True)


def expected_for(files, tmp, root_rel, mode_kind, cwd):
    """Oracle verdict for a materialised tree and a call configuration."""
    root_abs = os.path.join(tmp, root_rel)
    with io.open(root_abs, "rb") as f:
        text = f.read().decode("utf-8")
    base = place_of_dir(cwd) if mode_kind in ("loads", "load_anon") else place_of_dir(os.path.dirname(root_abs))
    return text, base


def judge(impl, exp, got, ref):
    """-> None when the property holds, else (symptom, detail)."""
    if exp[0] == "ok":
        if got[0] != "ok":
            if ref[0] != "ok" and ref[1] == got[1] and got[1] in ("UnexpectedToken", "UnexpectedCharacters", "VisitError"):
                return None          # the flattened text is rejected by the parser in the same way: substitution equivalence holds
            return ("expand:unexpected-error:%s" % got[1], "expansion should succeed; raised %s" % got[1])
        if ref[0] != "ok":
            return ("expand:accepts-what-flattened-text-rejects", "loads(flattened) raises %s but the include form loads" % ref[1])
        if got[1] != ref[1]:
            return ("expand:dict-differs", "dictionary differs from loads(flattened text)")
        return None
    if got[0] == "ok":
        return ("%s:no-error" % ("depth" if exp[1] == "ValueError" else "missing"), "expected %s, got a dictionary" % exp[1])
    if got[1] != exp[1]:
        return ("%s:wrong-error:%s" % ("depth" if exp[1] == "ValueError" else "missing", got[1]), "expected %s, raised %s" % (exp[1], got[1]))
    return None


def rel_cfg(cfg, tmp):
    kind, mode, cwd, root_arg, name = cfg
    r = lambda p: None if p is None else p.replace(tmp, TMP)
    return [kind, mode, r(cwd), r(root_arg), r(name)]


def abs_cfg(cfg, tmp):
    kind, mode, cwd, root_arg, name = cfg
    r = lambda p: None if p is None else p.replace(TMP, tmp)
    return (kind, mode, r(cwd), r(root_arg), r(name))


def check_files(impl, files, root_rel, cfg_rel, fast=False):
    """Replay form: concrete files + one configuration -> verdict (public API unless fast)."""
    with Scratch() as sc:
        tmp = sc.tmp
        materialise(files, tmp)
        kind, mode, cwd, root_arg, name = abs_cfg(cfg_rel, tmp)
        os.chdir(cwd)
        text, base = expected_for(files, tmp, root_rel, kind, cwd)
        with io.open(os.path.join(tmp, root_rel), "r", encoding="utf-8", newline="" if kind == "loads" else None) as f:
            arg_text = f.read()
        exp = oracle(text, base)
        call = impl.fast if fast else impl.api
        ref = call(2, None, exp[1], None) if exp[0] == "ok" else None
        got = call(mode, root_arg, arg_text, name)
        return judge(impl, exp, got, ref), exp, got


# ---------------------------------------------------------------------------
# histories: the same absolute paths, one process, the files change between loads
# ---------------------------------------------------------------------------
def bump_digits(s):
    return re.sub(r"\d", lambda m: str((int(m.group(0)) + 3) % 10), s)


def rewrite_tree(rng, t):
    """Same root file, same paths; one or more INCLUDED files get different content and a different nesting."""
    c = t.clone()
    live = sorted(i for i in reachable(c) if i != 0 and not c.files[i]["ghost"])
    if not live:
        return c
    for fi in rng.sample(live, rng.randint(1, min(3, len(live)))):
        f = c.files[fi]

        def bump(nodes):
            for n in nodes:
                if n[0] == "line":
                    n[1] = bump_digits(n[1])
                elif n[0] == "block":
                    bump(n[2])
        bump(f["nodes"])
        conts = containers(f["nodes"], "X", None, [])
        incs = [(cont, ni) for cont in conts for ni, n in enumerate(cont) if n[0] == "inc"]
        r = rng.random()
        if incs and r < 0.45:
            # less nesting: inline one include
            cont, ni = rng.choice(incs)
            child = c.files[cont[ni][1]]
            if not child["ghost"] and cont[ni][1] not in (0, fi):
                cont[ni:ni + 1] = copy.deepcopy(child["nodes"])
        elif r < 0.9:
            # more nesting: cut a run of this file out into a new file
            cs = [x for x in conts if runs(x)]
            if cs:
                cont = rng.choice(cs)
                i, j = rng.choice(runs(cont))
                a = rng.randrange(i, j)
                b = rng.randrange(a + 1, j + 1)
                path = os.path.normpath(os.path.join(c.root_dir, rng.choice(DIRS), "extra%d_%d.map" % (fi, len(c.files))))
                c.files.append({"path": path, "nodes": cont[a:b], "nl": "\n", "final_nl": True, "ghost": False})
                cont[a:b] = [["inc", len(c.files) - 1, gen_style(rng)]]
                st = cont[a][2]
                if st["quote"] == "" and st["form"] in ("abs", "dslash"):
                    st["quote"] = '"'
        if not f["nodes"]:
            f["nodes"] = [L("STATUS OFF")]
    return c


def replace_tree(rng, t):
    """A completely different tree written under the SAME directory and file names."""
    t2 = gen_tree(rng, rng.choice([1, 2, 3, 4]), root_dir=t.root_dir)
    old_paths = [f["path"] for f in t.files[1:] if not f["ghost"]]
    rng.shuffle(old_paths)
    taken = {t2.files[0]["path"]}
    for i, f in enumerate(t2.files[1:]):
        p = old_paths[i] if i < len(old_paths) else f["path"]
        while p in taken:
            p += "y"
        taken.add(p)
        f["path"] = p
    for f in t2.files:
        for n in iter_incs(f["nodes"]):
            if n[2]["quote"] == "" and not re.fullmatch(r"[A-Za-z0-9_./-]+", t2.files[n[1]]["path"]):
                n[2]["quote"] = '"'
    return t2


def clear_files(tmp):
    for dp, dn, fnames in os.walk(tmp):
        for n in fnames:
            os.remove(os.path.join(dp, n))


def history_step(impl, files, deleted, tmp, root_rel, cfg, channels):
    """(Re)write the scratch tree in place and load it through every channel. -> (verdict or None, channel, oracle result)"""
    clear_files(tmp)
    materialise(files, tmp)
    for d in deleted:
        p = os.path.join(tmp, d)
        if os.path.exists(p):
            os.remove(p)
    kind, mode, cwd, root_arg, name = cfg
    os.chdir(cwd)
    text, base = expected_for(files, tmp, root_rel, kind, cwd)
    with io.open(os.path.join(tmp, root_rel), "r", encoding="utf-8", newline="" if kind == "loads" else None) as f:
        arg_text = f.read()
    exp = oracle(text, base)
    for ch in channels:
        call = getattr(impl, ch)
        ref = call(2, None, exp[1], None) if exp[0] == "ok" else None
        got = call(mode, root_arg, arg_text, name)
        v = judge(impl, exp, got, ref)
        if v is not None:
            return v, ch, exp
    return None, None, exp


def run_history(impl, steps, root_rel, cfg_rel, channels):
    """steps = [(label, files, deleted)] replayed in ONE scratch directory (same absolute paths) and one process.
    -> (index of the first violated step, verdict, channel) or None"""
    with Scratch() as sc:
        cfg = abs_cfg(cfg_rel, sc.tmp)
        for i, (label, files, deleted) in enumerate(steps):
            v, ch, exp = history_step(impl, files, deleted, sc.tmp, root_rel, cfg, channels)
            if v is not None:
                return i, v, ch
    return None


def gen_history(rng):
    """T1 -> rewritten included files -> one included file deleted -> a different tree at the same names (order varies)."""
    t1 = gen_tree(rng, rng.choice([1, 2, 2, 3, 4]))
    steps = [("initial", render(t1), [])]
    cur = t1
    for label in rng.choice([["rewrite", "delete", "replace-tree"], ["rewrite", "rewrite", "delete"], ["delete", "replace-tree", "rewrite"],
                             ["replace-tree", "rewrite", "delete"], ["rewrite", "replace-tree", "rewrite"]]):
        if label == "rewrite":
            cur = rewrite_tree(rng, cur)
            steps.append((label, render(cur), []))
        elif label == "replace-tree":
            cur = replace_tree(rng, cur)
            steps.append((label, render(cur), []))
        else:
            files = render(cur)
            victims = [p for p in files if p != cur.files[0]["path"]]
            steps.append((label, files, [rng.choice(victims)] if victims else []))
    return t1, steps


# ---------------------------------------------------------------------------
# expand_includes=False: directives are data and are written back unchanged
# ---------------------------------------------------------------------------
PLURAL = {"LAYER": "layers", "CLASS": "classes", "STYLE": "styles", "LABEL": "labels"}
SINGLE = {"WEB": "web", "METADATA": "metadata", "PROJECTION": "projection"}


def expected_includes(t):
    """[(dict path, block kind, [names])] for the root file of a tree."""
    out = []

    def visit(nodes, path, kind):
        names = [inc_name(t, n[1], n[2]) for n in nodes if n[0] == "inc"]
        if names:
            out.append((list(path), kind, names))
        counts = {}
        for n in nodes:
            if n[0] == "block":
                k = n[1]
                if k in PLURAL:
                    i = counts.get(k, 0)
                    counts[k] = i + 1
                    visit(n[2], path + [PLURAL[k], i], k)
                elif k in SINGLE:
                    visit(n[2], path + [SINGLE[k]], k)
    top = t.files[0]["nodes"]
    assert len(top) == 1 and top[0][0] == "block"
    visit(top[0][2], [], "MAP")
    return out


def noexpand_check(impl, t, use_api, front=0):
    """expand_includes=False through open (front 0), load (1) or loads (2). -> list of (fingerprint, what)"""
    bad = []
    with Scratch() as sc:
        tmp = sc.tmp
        files = {t.files[0]["path"]: render(t)[t.files[0]["path"]]}     # only the root file exists
        materialise(files, tmp)
        root_abs = os.path.join(tmp, t.files[0]["path"])
        os.chdir(tmp)
        mf = impl.mappyfile
        exp = expected_includes(t)
        exp = [(p, k, [n.replace(TMP, tmp) for n in names]) for p, k, names in exp]
        with io.open(root_abs, "r", encoding="utf-8") as f:
            text = f.read()
        try:
            if use_api:
                if front == 0:
                    d = mf.open(root_abs, expand_includes=False)
                elif front == 1:
                    with io.open(root_abs, "r", encoding="utf-8") as fp:
                        d = mf.load(fp, expand_includes=False)
                else:
                    d = mf.loads(text, expand_includes=False)
            else:
                d = impl.fast_call(front, root_abs, text, root_abs, expand=False)
        except Exception as ex:
            kinds = sorted({k for _, k, _ in exp})
            fname = ("open", "load", "loads")[front]
            fpr = "noexpand:raises:OSError:%s" % fname if isinstance(ex, OSError) else "noexpand:raises:%s:in-%s" % (exc_class(ex), "+".join(kinds))
            return [(fpr, "%s(expand_includes=False) raised %s (directives in %s)" % (fname, type(ex).__name__, "+".join(kinds)))]
        for path, kind, names in exp:
            node = d
            try:
                for k in path:
                    node = node[k]
                got = node.get("include") if hasattr(node, "get") else None
            except Exception as ex:
                got = "unreachable: %r" % ex
            if got != names:
                bad.append(("noexpand:not-kept:in-%s" % kind, "block %s: include = %r, directives name %r" % (kind, got, names)))
        out = mf.dumps(d)
        got_lines = sorted(l.strip() for l in out.split("\n") if l.strip().upper().startswith("INCLUDE"))
        want = sorted('INCLUDE "%s"' % n for _, _, names in exp for n in names)
        if got_lines != want and not bad:
            bad.append(("noexpand:not-written-back", "dumps writes %r for directives %r" % (got_lines[:4], want[:4])))
        try:
            d2 = mf.loads(out, expand_includes=False) if use_api else impl.fast_call(2, None, out, None, expand=False)
            if json.dumps(d2, default=str) != json.dumps(d, default=str) and not bad:
                bad.append(("noexpand:roundtrip-differs", "loads(dumps(d), expand_includes=False) != d"))
        except Exception as ex:
            if not bad:
                bad.append(("noexpand:roundtrip-raises", "re-reading the written text raised %s" % type(ex).__name__))
    return bad


# ---------------------------------------------------------------------------
# pure helpers: exhaustive small scopes
# ---------------------------------------------------------------------------
def path_cases(maxlen):
    import posixpath
    alpha = "/.ab"
    strs = [""]
    for n in range(1, maxlen + 1):
        strs += ["".join(p) for p in itertools.product(alpha, repeat=n)]
    cases, expect = [], []
    for s in strs:
        for op, f in ((0, posixpath.isabs), (2, posixpath.dirname), (3, posixpath.normpath), (6, lambda x: x)):
            if op == 6:
                continue
            cases.append((152, [op] + codec.enc_str(s) + codec.enc_str("")))
            expect.append(("isabs", s, f(s)) if op == 0 else (("dirname", "normpath")[op - 2], s, f(s)))
    short = [x for x in strs if len(x) <= 3]
    for a in short:
        for b in short:
            cases.append((152, [1] + codec.enc_str(a) + codec.enc_str(b)))
            expect.append(("join", (a, b), posixpath.join(a, b)))
    return cases, expect


def newline_cases():
    cases, expect = [], []
    for n in range(0, 6):
        for p in itertools.product("\r\na", repeat=n):
            s = "".join(p)
            cases.append((152, [6] + codec.enc_str(s) + codec.enc_str("")))
            expect.append(("universal_newlines", s, io.TextIOWrapper(io.BytesIO(s.encode()), encoding="utf-8").read()))
    return cases, expect


LINE_PIECES = ["INCLUDE", "include", "Include", " ", "\t", "'", '"', "#", "a.map", "b", "\r", " ", "İnclude", "INCLUDES", "\x1c"]


def line_cases(rng, maxpieces, n_random):
    lines = []
    for n in range(0, maxpieces + 1):
        for p in itertools.product(LINE_PIECES, repeat=n):
            lines.append("".join(p))
    pool = LINE_PIECES + [" ", "　", "x y", "Σ", "K", "ınclude", "ſ", "/abs/p", "..", "\f", "\v", "END", "é"]
    for _ in range(n_random):
        lines.append("".join(rng.choice(pool) for _ in range(rng.randrange(1, 9))))
    return lines


def impl_line(parser, l):
    try:
        fnm = ("ok", parser._get_include_filename(l))
    except Exception as ex:
        fnm = ("err", exc_class(ex))
    return (l.strip().lower().startswith("include"), fnm, l.strip(), l.split())


def model_line(toks):
    rd = codec.Reader(toks)
    si = rd.z() != 0
    tag = rd.z()
    fnm = ("ok", rd.str()) if tag == 0 else ("err", {4: "IndexError"}.get(rd.z(), "other"))
    st = rd.str()
    n = rd.z()
    sp = [rd.str() for _ in range(n)]
    d = rd.z()
    spec = rd.str() if d == 1 else None
    return (si, fnm, st, sp), spec


# ---------------------------------------------------------------------------
def known_inputs():
    p = os.path.join(ROOT, "known_findings.d", "C15.json")
    if not os.path.exists(p):
        return []
    return [f for f in json.load(open(p))["findings"] if f.get("input")]


def report(ctx, symptom, feats, what, replay):
    fp = symptom + (":" + "+".join(sorted(feats)) if feats else "")
    ctx.violation(fp, what, replay)


def run(ctx):
    logging.disable(logging.CRITICAL)
    old_cwd = os.getcwd()
    try:
        _run(ctx)
    finally:
        os.chdir(old_cwd)
        logging.disable(logging.NOTSET)


def _run(ctx):
    rng = ctx.rng
    impl = Impl()
    stats = {}
    model_cases = []

    # ---- 0. recorded inputs of known findings and the regression corpus, replayed first
    for f in known_inputs():
        inp = f["input"]
        if inp.get("kind") == "noexpand":
            continue
        v, exp, got = check_files(impl, inp["files"], inp["root"], inp["cfg"])
        ctx.note_case("known:" + f["id"])
        if v is not None:
            ctx.violation(f["fingerprint"], f["what"], inp)
    cpath = os.path.join(ROOT, "corpus", "C15.json")
    if os.path.exists(cpath):
        for c in json.load(open(cpath)):
            v, exp, got = check_files(impl, c["files"], c["root"], c["cfg"])
            ctx.note_case("corpus:" + json.dumps(c, sort_keys=True))
            if v is not None:
                ctx.violation("corpus:" + v[0], v[1], c)

    # ---- 1. trees
    trees = []
    # systematic chain family: depth 0..7 x name form x root folder (exact boundary at 5 / 6)
    for depth in range(0, 8):
        for form in ("rel", "abs", "updown"):
            for rd in ("proj", "proj/maps"):
                trees.append(("chain", depth, chain_tree(depth, form, rd, quote=rng.choice(['"', "'", ""]) if form == "rel" else '"',
                                                         nl=rng.choice(["\n", "\r\n"]))))
    n_rand = ctx.budget(110, 2500)
    for i in range(n_rand):
        r = rng.random()
        if r < 0.62:
            trees.append(("ok", None, gen_tree(rng, rng.choice([0, 1, 1, 2, 2, 3, 3, 4, 4, 5, 5, 5]))))
        elif r < 0.76:
            trees.append(("deep", None, gen_tree(rng, rng.choice([6, 6, 7]))))
        elif r < 0.86:
            trees.append(("cycle", None, gen_tree(rng, rng.choice([0, 1, 2, 3]), kind="cycle")))
        elif r < 0.95:
            trees.append(("missing", None, gen_tree(rng, rng.choice([1, 2, 3, 4]), kind="missing")))
        elif r < 0.98:
            trees.append(("ws", None, gen_tree(rng, rng.choice([1, 2, 3]), feature="ws")))
        else:
            trees.append(("hash", None, gen_tree(rng, rng.choice([1, 2]), feature="hash")))
    n_api = ctx.budget(14, 160)
    api_every = max(1, len(trees) // n_api)
    depth_hist, mode_hist, verdict_hist = {}, {}, {}
    n_viol = 0
    shrunk = {}
    t_start = time.time()
    for ti, (tkind, _, t) in enumerate(trees):
        use_api = (ti % api_every == 0)
        first = len(model_cases)
        res = hunt_tree(rng, impl, t, ctx.budget(2, 3) if tkind != "chain" else 2, use_api, stats, model_cases)
        for (cfg, v, exp), mc in zip(res, model_cases[first:]):
            mode_hist[cfg[0]] = mode_hist.get(cfg[0], 0) + 1
            ek = exp[0] if exp[0] == "ok" else exp[1]
            verdict_hist[ek] = verdict_hist.get(ek, 0) + 1
            key = json.dumps([mc["files"], mc["root"], rel_cfg(cfg, mc["tmp"])], sort_keys=True)
            ctx.note_case(key, nontrivial=any(True for _ in iter_incs_all(t)))
            if v is not None:
                n_viol += 1
                # shrink and report at most three failing trees per symptom (each gets its own feature fingerprint)
                shrunk[v[0]] = shrunk.get(v[0], 0) + 1
                if shrunk[v[0]] <= 3 and time.time() - t_start < ctx.budget(60, 600):
                    _report_tree(ctx, impl, t, cfg, mc["tmp"], v)
                elif not any(x[0].startswith(v[0]) for x in ctx.violations) and not any(
                        f["fingerprint"].startswith(v[0]) for f in ctx.findings):
                    report(ctx, v[0], set(), v[1], {"kind": "tree", "files": mc["files"], "root": mc["root"], "cfg": rel_cfg(cfg, mc["tmp"])})
        d = tree_depth(t)
        depth_hist[d] = depth_hist.get(d, 0) + 1
    ctx.coverage["tree_depth_histogram"] = {str(k): v for k, v in sorted(depth_hist.items(), key=lambda kv: str(kv[0]))}
    ctx.coverage["call_mode_histogram"] = mode_hist
    ctx.coverage["oracle_verdict_histogram"] = verdict_hist
    ctx.count("trees", len(trees))
    ctx.count("hunter_failing_configurations", n_viol)
    ctx.count("public_api_calls_unpatched", stats.get("api_calls", 0))

    # ---- 1b. histories at the same absolute paths in this one process (a result must depend on the files as they
    #          are NOW): fresh module-level calls, one reused Parser object, and the unpatched API for a sample
    n_hist = ctx.budget(14, 250)
    n_hist_api = ctx.budget(2, 25)
    hist_steps = {}
    for hi in range(n_hist):
        t1, steps = gen_history(rng)
        with Scratch() as sc0:
            cfg_rel = rel_cfg(configs(rng, t1, sc0.tmp, 1)[0], sc0.tmp)
        channels = ["fast", "reused"] + (["api"] if hi < n_hist_api else [])
        for lbl, _, _ in steps[1:]:
            hist_steps[lbl] = hist_steps.get(lbl, 0) + 1
        ctx.note_case("history:" + json.dumps([steps, cfg_rel], sort_keys=True), nontrivial=True)
        r = run_history(impl, steps, t1.files[0]["path"], cfg_rel, channels)
        if r is not None:
            i, v, ch = r
            # shortest prefix-free form: the step before the failing one and the failing one
            small = steps[:i + 1]
            for cand in ([steps[i - 1], steps[i]] if i >= 1 else []), :
                if cand and run_history(impl, cand, t1.files[0]["path"], cfg_rel, [ch]) is not None:
                    small = cand
            first_alone = run_history(impl, [steps[i]], t1.files[0]["path"], cfg_rel, [ch])
            if first_alone is not None:
                # fails without any history: an ordinary tree violation
                report(ctx, v[0], set(), v[1] + " [%s]" % cfg_rel[0], {"kind": "tree", "files": steps[i][1], "root": t1.files[0]["path"], "cfg": cfg_rel})
            else:
                ctx.violation("history:%s:%s" % (steps[i][0], v[0]),
                              "after the files changed at the same absolute paths (%s), loading again in the same process through %s: %s"
                              % (steps[i][0], {"fast": "fresh open/load/loads calls", "reused": "a reused Parser object", "api": "the public API"}[ch], v[1]),
                              {"kind": "history", "steps": [[a, b, c] for a, b, c in small], "root": t1.files[0]["path"], "cfg": cfg_rel, "channel": ch})
    ctx.count("history_cases", n_hist)
    ctx.coverage["history_step_histogram"] = hist_steps

    # ---- 2. expand_includes=False
    n_noexp = ctx.budget(40, 600)
    n_noexp_api = ctx.budget(6, 60)
    for i in range(n_noexp):
        allowed = COMPOSITE_KINDS + (("METADATA",) if rng.random() < 0.15 else ())
        t = gen_tree(rng, 1, allowed=allowed)
        for f in t.files:
            for n in iter_incs(f["nodes"]):
                if n[2]["quote"] == "":
                    tgt = os.path.basename(t.files[n[1]]["path"])
                    if n[2]["form"] != "rel" or not re.fullmatch(r"[A-Za-z0-9_]+\.map", inc_name(t, n[1], n[2])):
                        n[2]["quote"] = '"'
        # inside a string-pair block (METADATA) only quoted names: a bare word there is not even a string pair, and
        # bare names are not MapServer syntax in the first place
        for n, kind in iter_incs_kind(t.files[0]["nodes"], "TOP"):
            if kind == "METADATA" and n[2]["quote"] == "":
                n[2]["quote"] = '"'
        ctx.note_case("noexp:" + json.dumps(render(t).get(t.files[0]["path"])), nontrivial=True)
        for fp, what in noexpand_check(impl, t, use_api=(i < n_noexp_api), front=i % 3):
            ctx.violation(fp, what, {"kind": "noexpand", "root_text": render(t)[t.files[0]["path"]], "front": i % 3})
    for f in known_inputs():
        inp = f["input"]
        if inp.get("kind") == "noexpand":
            bad = noexpand_text_check(impl, inp["root_text"], inp.get("front", 2))
            if bad:
                ctx.violation(f["fingerprint"], f["what"], inp)
    ctx.count("noexpand_cases", n_noexp)

    # ---- 3. correspondence: trees (incl. dirty, correspondence-only)
    dirty_lines = ["INCLUDE", "  include  ", "INCLUDES \"x.map\"", "INCLUDEFOO part.map", "include#x", "INCLUDE ''", "INCLUDE \"\"",
                   "INCLUDE '\"root.map\"'", "INCLUDE a.map b.map", "INCLUDE \"has space.map\"", " INCLUDE root.map", "INCLUDE\troot.map\r",
                   "include root.map", "İNCLUDE x", "INCLUDE \"nodir/../root.map\"", "INCLUDE .", "INCLUDE ..", "INCLUDE /", "INCLUDE \"inc\""]
    n_dirty = ctx.budget(40, 400)
    with Scratch() as sc:
        tmp = sc.tmp
        files = {"proj/root.map": 'NAME "r"\n', "proj/part.map": "SIZE 1 2\r\nUNITS DD\rEXTENT 0 0 1 1", "proj/inc/x.map": "INCLUDE part.map\n",
                 "proj/has": "STATUS ON", "proj/a.map": "INCLUDE \"inc/x.map\" # nested\nINCLUDE",
                 "proj/deep1.map": "INCLUDE deep2.map", "proj/deep2.map": "INCLUDE deep3.map", "proj/deep3.map": "INCLUDE deep4.map",
                 "proj/deep4.map": "INCLUDE deep5.map", "proj/deep5.map": "INCLUDE\nINCLUDE deep6.map", "proj/deep6.map": "x"}
        materialise(files, tmp)
        items = fs_items(tmp)
        for i in range(n_dirty):
            k = rng.randrange(1, 4)
            text = "\n".join(rng.choice(dirty_lines + ["INCLUDE a.map", "INCLUDE part.map", "NAME 'x'", "", "INCLUDE deep1.map", "INCLUDE deep2.map"]) for _ in range(k))
            cwd = rng.choice([tmp, os.path.join(tmp, "proj"), os.path.join(tmp, "proj/inc")])
            fn = rng.choice([None, os.path.join(tmp, "proj/root.map"), "root.map", "../proj/root.map", os.path.join(tmp, "proj") + "/", "", "proj/inc/..",
                             "//" + tmp.lstrip("/") + "/proj/root.map"])
            os.chdir(cwd)
            model_cases.append({"items": items, "cwd": cwd, "fn": fn, "text": text, "mode": None, "impl_li": impl.load_includes(text, fn),
                                "kind": "dirty", "files": files, "root": "proj/root.map", "tmp": tmp})
    ctx.count("dirty_correspondence_cases", n_dirty)

    n_bad = 0
    n_spec_bad = 0
    if ctx.model_ok:
        cases = []
        for mc in model_cases:
            payload = enc_case(mc["items"], mc["cwd"], mc["fn"], mc["text"])
            cases.append((150, payload))
        outs = run_model("includes", cases)
        fcases, fidx = [], []
        for i, mc in enumerate(model_cases):
            if mc["mode"] is None:
                continue
            for expand, key in ((1, "impl_front"), (0, "impl_front0")):
                fn = mc["root_arg"] if mc["mode"] == 0 else mc["fn"]
                fcases.append((151, [mc["mode"], expand] + enc_case(mc["items"], mc["cwd"], fn, mc["text"])))
                fidx.append((i, key))
            fcases.append((155, enc_case(mc["items"], mc["cwd"], mc["fn"], mc["text"])))
            fidx.append((i, "spec_oracle"))
        fouts = run_model("includes", fcases) if fcases else []
        for mc, o in zip(model_cases, outs):
            m = dec_res(o)
            if m != mc["impl_li"]:
                n_bad += 1
                ctx.violation("correspondence:O-inc:load_includes", "model %r, implementation %r" % (trunc(m), trunc(mc["impl_li"])),
                              {"files": mc["files"], "cwd": mc["cwd"].replace(mc["tmp"], TMP), "fn": None if mc["fn"] is None else mc["fn"].replace(mc["tmp"], TMP),
                               "text": mc["text"].replace(mc["tmp"], TMP)}, no_input=True)
        for (i, key), o in zip(fidx, fouts):
            mc = model_cases[i]
            m = dec_res(o)
            if m != mc[key]:
                if key == "spec_oracle":
                    n_spec_bad += 1
                    ctx.violation("correspondence:spec-vs-oracle", "Coq Spec.Subst.expanded %r, Python oracle %r" % (trunc(m), trunc(mc[key])),
                                  {"files": mc["files"], "cwd": mc["cwd"].replace(mc["tmp"], TMP), "text": mc["text"].replace(mc["tmp"], TMP)}, no_input=True)
                else:
                    n_bad += 1
                    ctx.violation("correspondence:O-inc:front-end", "%s: model %r, implementation %r" % (key, trunc(m), trunc(mc[key])),
                                  {"files": mc["files"], "cwd": mc["cwd"].replace(mc["tmp"], TMP), "mode": mc["mode"], "text": mc["text"].replace(mc["tmp"], TMP)},
                                  no_input=True)
        ctx.obligation("correspondence O-inc: load_includes and the open/load/loads include stage (model = implementation on every case)",
                       n_bad == 0, "%d load_includes cases, %d front-end observations, %d disagreements" % (len(cases), len(fcases), n_bad))
        ctx.obligation("Spec/Subst.expanded (extracted) = independent Python substitution on every tree case", n_spec_bad == 0,
                       "%d cases, %d disagreements" % (sum(1 for x in fidx if x[1] == "spec_oracle"), n_spec_bad))
        ctx.count("traces_validated_against_impl", len(cases) + len(fcases))

        # ---- 4. pure helpers, exhaustive small scopes
        pc, pe = path_cases(ctx.budget(6, 7))
        nc, ne = newline_cases()
        pouts = run_model("includes", pc + nc)
        n_pbad = 0
        for (fn, payload), (name, arg, want), o in zip(pc + nc, pe + ne, pouts):
            if name == "isabs":
                got = (o == [1])
            else:
                got = codec.Reader(o).str()
            if got != want:
                n_pbad += 1
                ctx.violation("correspondence:O-inc:%s" % name, "%s(%r): model %r, implementation %r" % (name, arg, got, want), {"fn": name, "arg": arg}, no_input=True)
        # abspath / kernel walk against the real os on random strings
        import posixpath
        acases, aexp = [], []
        segs = ["", ".", "..", "a", "b", "inc", "x.map"]
        for _ in range(ctx.budget(1500, 20000)):
            cwd = "/" + "/".join(rng.choice(["a", "b", "tmp", "w"]) for _ in range(rng.randrange(0, 4)))
            p = ("/" * rng.choice([0, 0, 1, 2, 3])) + "/".join(rng.choice(segs) for _ in range(rng.randrange(0, 6)))
            acases.append((152, [4] + codec.enc_str(cwd) + codec.enc_str(p)))
            aexp.append(("abspath", (cwd, p), posixpath.normpath(p if p.startswith("/") else posixpath.join(cwd, p))))
            acases.append((152, [5] + codec.enc_str(cwd) + codec.enc_str(p)))
            aexp.append(("os_resolve", (cwd, p), walk_place(walk_place([], cwd), p)))
        aouts = run_model("includes", acases)
        for (name, arg, want), o in zip(aexp, aouts):
            rd = codec.Reader(o)
            got = rd.str() if name == "abspath" else [rd.str() for _ in range(rd.z())]
            if got != want:
                n_pbad += 1
                ctx.violation("correspondence:O-inc:%s" % name, "%s%r: model %r, expected %r" % (name, arg, got, want), {"fn": name, "arg": arg}, no_input=True)
        ctx.obligation("correspondence O-inc: posixpath isabs/join/dirname/normpath/abspath, universal newlines, path walk (exhaustive short strings + random)",
                       n_pbad == 0, "%d cases, %d disagreements" % (len(pc) + len(nc) + len(acases), n_pbad))
        ctx.count("path_helper_cases", len(pc) + len(nc) + len(acases))

        lines = line_cases(rng, ctx.budget(4, 5), ctx.budget(3000, 40000))
        louts = run_model("includes", [(153, codec.enc_str(l)) for l in lines])
        n_lbad = 0
        n_sbad = 0
        for l, o in zip(lines, louts):
            m, spec = model_line(o)
            im = impl_line(impl.parser, l)
            if m != im:
                n_lbad += 1
                ctx.violation("correspondence:O-inc:line-helpers", "line %r: model %r, implementation %r" % (l, m, im), {"line": l}, no_input=True)
            if spec != read_directive(l):
                n_sbad += 1
                ctx.violation("correspondence:spec-vs-oracle:directive", "line %r: Coq directive %r, Python oracle %r" % (l, spec, read_directive(l)), {"line": l}, no_input=True)
        ctx.obligation("correspondence O-inc: _get_include_filename / starts-with-include test / strip / split (all short lines + random)",
                       n_lbad == 0, "%d lines, %d disagreements" % (len(lines), n_lbad))
        ctx.obligation("Spec/Subst.directive (extracted) = independent Python directive reader on every line", n_sbad == 0, "%d lines, %d disagreements" % (len(lines), n_sbad))
        ctx.count("line_helper_cases", len(lines))
        wout = run_model("includes", [(154, [])])[0]
        ws_ok = sorted(wout) == [ord(c) for c in PY_WS]
        ctx.obligation("py_whitespace table = {c | chr(c).isspace()} over all 1114112 code points", ws_ok, "model %d code points" % len(wout))
        if not ws_ok:
            ctx.violation("correspondence:O-inc:whitespace-table", "white-space table differs from str.isspace", {"model": wout}, no_input=True)

    ctx.sample({"tree_files": {k: v[:200] for k, v in list(render(trees[-1][2]).items())[:4]}, "kind": trees[-1][0]})
    ctx.sample({"dirty_text": model_cases[-1]["text"], "fn": model_cases[-1]["fn"], "result": trunc(model_cases[-1]["impl_li"])})
    ctx.sample({"line_helper_input": "INCLUDE\t'a.map' # c", "oracle_directive": read_directive("INCLUDE\t'a.map' # c")})


def trunc(r):
    return (r[0], r[1][:160] if isinstance(r[1], str) else r[1])


def iter_incs_all(t):
    for n in iter_incs(t.files[0]["nodes"]):
        yield n


def tree_depth(t):
    seen = {}

    def d(i, stack):
        if i in stack:
            return 99
        f = t.files[i]
        if f["ghost"]:
            return 0
        m = 0
        for n in iter_incs(f["nodes"]):
            m = max(m, 1 + d(n[1], stack | {i}))
        return min(m, 99)
    x = d(0, frozenset())
    return "cyclic" if x >= 99 else x


def hunt_tree(rng, impl, t, n_cfg, use_api, stats, model_cases):
    """Materialise a tree in a scratch directory, run n_cfg call configurations against the oracle, and
    record the inputs / implementation observations for the model runs.  -> [(cfg, verdict, oracle result)]"""
    results = []
    with Scratch() as sc:
        tmp = sc.tmp
        files = render(t)
        materialise(files, tmp)
        items = fs_items(tmp)
        root_rel = t.files[0]["path"]
        for (kind, mode, cwd, root_arg, name) in configs(rng, t, tmp, n_cfg):
            os.chdir(cwd)
            text, base = expected_for(files, tmp, root_rel, kind, cwd)
            # what the caller passes to load / loads: text-mode content (CRLF kept for the plain-string case)
            with io.open(os.path.join(tmp, root_rel), "r", encoding="utf-8", newline="" if kind == "loads" else None) as f:
                arg_text = f.read()
            exp = oracle(text, base)
            ref = impl.fast(2, None, exp[1], None) if exp[0] == "ok" else None
            got = impl.fast(mode, root_arg, arg_text, name)
            v = judge(impl, exp, got, ref)
            if use_api:
                got2 = impl.api(mode, root_arg, arg_text, name)
                ref2 = impl.api(2, None, exp[1], None) if exp[0] == "ok" else None
                v2 = judge(impl, exp, got2, ref2)
                stats["api_calls"] = stats.get("api_calls", 0) + (2 if ref2 else 1)
                if v is None and v2 is not None:
                    v = v2
            fn_arg = None if kind in ("loads", "load_anon") else (root_arg if mode == 0 else name)
            model_cases.append({"items": items, "cwd": cwd, "fn": fn_arg, "text": arg_text, "mode": mode, "root_arg": root_arg,
                                "impl_li": impl.load_includes(arg_text, fn_arg),
                                "impl_front": impl.front_text(mode, True, root_arg, arg_text, name),
                                "impl_front0": impl.front_text(mode, False, root_arg, arg_text, name),
                                "spec_oracle": oracle(arg_text, base, translate=True), "kind": kind,
                                "files": files, "root": root_rel, "tmp": tmp})
            results.append(((kind, mode, cwd, root_arg, name), v, exp))
    return results


def _report_tree(ctx, impl, t, cfg, tmp, v):
    """Shrink a failing tree for the failing configuration and report it under a feature fingerprint."""
    symptom = v[0]
    cfg_rel = rel_cfg(cfg, tmp)

    def fails(c):
        r = check_files(impl, render(c), c.files[0]["path"], cfg_rel, fast=True)[0]
        return r is not None and r[0] == symptom
    try:
        small = shrink_tree(t, fails) if fails(t) else t
    except Exception:
        small = t
    feats = features_of(small)
    # spacing / case / comment variations that survive shrinking are part of the shape; drop the ones that are plain
    report(ctx, symptom, feats, "%s [%s, cwd %s]" % (v[1], cfg_rel[0], cfg_rel[2]),
           {"kind": "tree", "files": render(small), "root": small.files[0]["path"], "cfg": cfg_rel})


def noexpand_text_check(impl, root_text, front=2):
    """Recorded expand_includes=False input through open (0) / load (1) / loads (2): True when the
    directives are still not kept / written back (or the call raises)."""
    mf = impl.mappyfile
    names = [read_directive(l) for l in root_text.split("\n")]
    names = [n for n in names if n is not None]
    with Scratch() as sc:
        p = os.path.join(sc.tmp, "root.map")
        with io.open(p, "wb") as f:
            f.write(root_text.encode("utf-8"))
        os.chdir(sc.tmp)
        try:
            if front == 0:
                d = mf.open(p, expand_includes=False)
            elif front == 1:
                with io.open(p, "r", encoding="utf-8") as fp:
                    d = mf.load(fp, expand_includes=False)
            else:
                d = mf.loads(root_text, expand_includes=False)
            out = mf.dumps(d)
        except Exception:
            return True
    got = sorted(l.strip() for l in out.split("\n") if l.strip().upper().startswith("INCLUDE"))
    return got != sorted('INCLUDE "%s"' % n for n in names)


def replay(ctx, body):
    logging.disable(logging.CRITICAL)
    r = body["replay"]
    impl = Impl()
    old = os.getcwd()
    try:
        if r.get("kind") == "noexpand":
            bad = noexpand_text_check(impl, r["root_text"], r.get("front", 2))
            print("replay: expand_includes=False directives", "NOT written back unchanged" if bad else "written back unchanged")
            return 1 if bad else 0
        if r.get("kind") == "history":
            res = run_history(impl, [tuple(x) for x in r["steps"]], r["root"], r["cfg"], ["api", "reused"])
            print("replay: history of %d loads at the same paths ->" % len(r["steps"]),
                  "VIOLATION at step %d (%s) via %s: %s" % (res[0], r["steps"][res[0]][0], res[2], res[1][0]) if res else "property holds at every step")
            return 1 if res else 0
        if "cfg" in r:
            v, exp, got = check_files(impl, r["files"], r["root"], r["cfg"])
            print("replay: oracle %r, implementation %r ->" % (trunc(exp), trunc(got)), "VIOLATION %s" % v[0] if v else "property holds")
            return 1 if v else 0
        print("replay: correspondence-only record (no property violation to replay)")
        return 0
    finally:
        os.chdir(old)
