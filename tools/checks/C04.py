"""C04: formatting is a deterministic normal form (idempotent).

Hunter: for t = dumps(loads(text), **opts): dumps(loads(t), **opts) is byte
identical to t and loads(t) == loads(dumps(loads(t))) exactly; the same
dictionary and options always give the same text (also across processes with
different hash seeds).  Runner: printer model vs real printer on the
dictionaries involved."""
import os, sys, json, subprocess, tempfile, copy
from checklib import codec
from gens import docs, sweep, harness, rt

MANIFEST = dict(
    technique="Coq lemmas (idempotence of the printer's normalisations, determinism) + kernel-checked format-twice evaluation on the slot product through the composed models + extracted-model correspondence",
    text=("Coq (Props/C04.v): [universal] the printer is a function of dictionary and options; escape_quotes is idempotent for every string (proved from unescape . escape = id); upper-casing is idempotent (generated case table); "
          "[universal, Proofs/PrintU_Twice.v] printing the dictionary a print call leaves behind gives the same text and leaves it unchanged; "
          "[finite] for every root-level document of the slot product, formatting the formatted text again is byte-identical and re-loading is exact - evaluated by the kernel through parser and printer models. "
          "PARTIAL: the universal idempotence over all dictionaries depends on C01's acceptance hypothesis and is explored by the hunter: format-twice on corpus files and generated documents under random option sets, "
          "and the same dictionary printed in separate processes under three PYTHONHASHSEED values."),
    design_ref="DESIGN.md 7/C04",
    note="C04: documents that already fail C01 (known findings there) are outside this check's cases.")

COMPONENTS = ["parser", "printer"]
TARGETS = []
RULE = "corpus files and generated documents after one formatting pass under a random option set of the C06 product; non-trivial = at least 3 keywords"


def rand_opts(rng):
    return dict(indent=rng.randrange(0, 9), spacer=rng.choice([" ", "\t"]), quote=rng.choice(['"', "'"]),
                newlinechar=rng.choice(["\n", "\r\n"]), end_comment=rng.random() < 0.5, align_values=rng.random() < 0.5,
                separate_complex_types=rng.random() < 0.3)


def run(ctx):
    import mappyfile
    from mappyfile.pprint import PrettyPrinter
    rng = ctx.rng
    corp = harness.corpus_files()
    rng.shuffle(corp)
    texts = [t for _, t in corp[:ctx.budget(60, 451)] if len(t) < ctx.budget(20000, 10**7)]
    for doc in harness.gen_documents(rng, ctx.budget(150, 2500), max_depth=4, contract=True, pool="parseable"):
        texts.append(docs.render(doc, harness.random_layout(rng))[0])
    cases = []
    for i, t in enumerate(texts):
        try:
            d = sweep.fast_loads(t)
        except Exception:
            continue
        o = rand_opts(rng) if i % 3 else dict(indent=4, spacer=" ", quote='"', newlinechar="\n", end_comment=False, align_values=False, separate_complex_types=False)
        if rt.excluded(d, o["quote"]):
            continue
        pp = PrettyPrinter(**o)
        try:
            t1 = pp.pprint(d)
            d1 = sweep.fast_loads(t1)
        except Exception:
            continue                  # C01 / C03 territory
        ctx.note_case(t1, nontrivial=len(t1.split()) > 6)
        try:
            t2 = pp.pprint(copy.deepcopy(d1)) if i % 7 else mappyfile.dumps(copy.deepcopy(d1), **o)
        except Exception as ex:
            ctx.violation("second-format-raises:" + type(ex).__name__, "formatting already formatted output raises", {"text": t1, "options": o})
            continue
        if t2 != t1:
            la, lb = t1.split(o["newlinechar"]), t2.split(o["newlinechar"])
            j = next((k for k, (x, y) in enumerate(zip(la, lb)) if x != y), min(len(la), len(lb)))

            def twice_differs(c):
                try:
                    a = pp.pprint(copy.deepcopy(c))
                    return pp.pprint(sweep.fast_loads(a)) != a
                except Exception:
                    return False
            small = rt.shrink_dict(d, twice_differs)
            ctx.violation("format-twice-differs:" + rt.slot_symptom(small),
                          "dumps(loads(t)) differs from t at line %d: %r -> %r; minimal dictionary prints as %r"
                          % (j + 1, la[j] if j < len(la) else None, lb[j] if j < len(lb) else None, pp.pprint(copy.deepcopy(small))),
                          {"text": t1, "options": o})
            continue
        cases.append((o, d1, t1))
        try:
            d2 = sweep.fast_loads(t2)
        except Exception as ex:
            ctx.violation("formatted-text-rejected", "formatted text is rejected on the second load", {"text": t1, "options": o})
            continue
        if not harness.same_canon(codec.canon(d1), codec.canon(d2)):
            ctx.violation("reload-differs", "loads(t) != loads(dumps(loads(t)))", {"text": t1, "options": o})
        # determinism in-process: a copy of the dictionary, and the very same dictionary object printed again
        if pp.pprint(copy.deepcopy(d1)) != t1:
            ctx.violation("nondeterministic-print", "the same dictionary and options printed differently", {"text": t1, "options": o})
        if not o.get("separate_complex_types"):
            a1 = pp.pprint(d1)
            a2 = pp.pprint(d1)
            if a1 != a2 or a1 != t1:
                ctx.violation("print-changes-with-repetition", "printing the same dictionary object again gives a different text (the first call changed its argument)", {"text": t1, "options": o})
    # ---- key-value blocks, repeated string keywords, CONFIG and PROJECTION lines x awkward strings: formatted twice
    # under both output quotes (these values do not go through format_value)
    n_kv = 0
    templates = [("MAP METADATA %s %s END END", "metadata"), ("MAP WEB VALIDATION %s %s END END END", "validation"), ("LAYER CONNECTIONOPTIONS %s %s END END", "connectionoptions"),
                 ("LAYER PROCESSING %s PROCESSING %s END", "processing"), ("MAP CONFIG %s %s END", "config"), ("MAP PROJECTION %s %s END END", "projection"),
                 ("OUTPUTFORMAT FORMATOPTION %s FORMATOPTION %s END", "formatoption")]

    def q(x):
        return ('"%s"' % x) if '"' not in x else ("'%s'" % x)
    for tpl, n in templates:
        for w in harness.KV_POOL:
            for quote in ('"', "'"):
                if quote in w:
                    continue                      # documented exclusion: the value contains the output quote
                first = "k_one" if n in ("metadata", "config", "validation", "connectionoptions") else w
                t = tpl % (q(first), q(w))
                try:
                    d = sweep.fast_loads(t)
                except Exception:
                    continue
                pp = PrettyPrinter(quote=quote)
                try:
                    t1 = pp.pprint(d)
                    d1 = sweep.fast_loads(t1)
                    t2 = pp.pprint(copy.deepcopy(d1))
                except Exception:
                    continue                      # C01 / C03 territory
                n_kv += 1
                ctx.note_case(("kv-twice", tpl, w, quote))
                if t2 != t1:
                    ctx.violation("format-twice-differs:" + n + ":string",
                                  "dumps(loads(t)) differs from t for the value %r written with quote %s: %r -> %r" % (w, quote, t1, t2), {"text": t1, "options": {"quote": quote}})
    ctx.count("keyvalue_string_cases", n_kv)
    # ---- list-valued keywords holding strings (hex colour ranges, bindings): the same object printed three times
    for t in ('STYLE COLORRANGE "#0000ff" "#ff0000" DATARANGE 1 2 END', "STYLE COLORRANGE '#00ff00' '#0000ffaa' END", 'LABEL OFFSET [ox] [oy] END',
              'LABEL SHADOWSIZE 2 [sz] END', 'STYLE POLAROFFSET [r] [a] END', 'LAYER PROCESSING "A=1" PROCESSING "B=2" END', 'MAP EXTENT 0 0 10 10 SIZE 400 300 END'):
        try:
            d = sweep.fast_loads(t)
        except Exception:
            continue
        ctx.note_case(("same-object", t))
        for quote in ('"', "'"):
            pp = PrettyPrinter(quote=quote)
            try:
                outs = [pp.pprint(d) for _ in range(3)]
            except Exception as ex:
                ctx.violation("print-changes-with-repetition", "printing the same dictionary object repeatedly raises %s" % type(ex).__name__, {"text": t, "options": {"quote": quote}})
                continue
            if len(set(outs)) != 1:
                ctx.violation("print-changes-with-repetition", "printing the same dictionary object repeatedly gives different texts: %r then %r" % (outs[0], outs[-1]), {"text": t, "options": {"quote": quote}})
    # ---- determinism across processes / hash seeds
    n_proc = ctx.budget(2, 6)
    sample = cases[:: max(1, len(cases) // 25)][:25]
    if sample:
        tmp = tempfile.mkdtemp(prefix="verif_c04_")
        try:
            fn = os.path.join(tmp, "cases.json")
            json.dump([{"o": o, "t": t1} for o, d1, t1 in sample], open(fn, "w"))
            prog = ("import json,sys,mappyfile\ncs=json.load(open(sys.argv[1]))\n"
                    "print(json.dumps([mappyfile.dumps(mappyfile.loads(c['t'], expand_includes=False), **c['o']) for c in cs]))")
            ref = None
            for seed in ["1", "77", "4242", "0", "13", "999"][:n_proc]:
                env = dict(os.environ, PYTHONHASHSEED=seed, PYTHONPATH=os.environ.get("VERIF_REPO", "/repo"))
                p = subprocess.run(["/venv/bin/python", "-c", prog, fn], env=env, stdout=subprocess.PIPE, stderr=subprocess.PIPE, timeout=600)
                out = json.loads(p.stdout.decode()) if p.returncode == 0 else None
                if out is None:
                    ctx.violation("subprocess-failed", "printing in a fresh process failed: %s" % p.stderr.decode()[-300:], {"seed": seed})
                    break
                if ref is None:
                    ref = out
                elif out != ref:
                    k = next(i for i, (a, b) in enumerate(zip(out, ref)) if a != b)
                    ctx.violation("nondeterministic-across-processes", "the same dictionary printed differently under another PYTHONHASHSEED", {"text": sample[k][2], "seed": seed})
                ctx.count("process_runs")
            if ref is not None and ref != [t1 for _, _, t1 in sample]:
                ctx.violation("process-differs-from-inprocess", "a fresh process prints differently from this process", {"text": sample[0][2]})
        finally:
            import shutil
            shutil.rmtree(tmp, ignore_errors=True)
    # ---- correspondence of the printer model on the formatted dictionaries
    if ctx.model_ok and cases:
        from corr import printer as P
        sel = cases if len(cases) < ctx.budget(120, 1500) else rng.sample(cases, ctx.budget(120, 1500))
        full = [dict(o, separate_complex_types=False) for o, _, _ in sel]
        outs = P.model_lines([(fo, d1) for fo, (o, d1, t1) in zip(full, sel)])
        n_bad = 0
        for fo, (o, d1, t1), m in zip(full, sel, outs):
            a = P.impl_lines(fo, d1)
            if a != m:
                n_bad += 1
                ctx.violation("correspondence:O-lines-options", "printer model and PrettyPrinter disagree", {"text": t1, "options": o}, no_input=True)
        ctx.obligation("correspondence O-lines under random options on %d formatted dictionaries" % len(sel), n_bad == 0, "%d disagreements" % n_bad)
        ctx.count("traces_validated_against_impl", len(sel))
    if cases:
        ctx.sample({"options": cases[-1][0], "formatted": cases[-1][2][:300]})
    ctx.sample({"n_format_twice_cases": len(cases)})


def replay(ctx, body):
    import mappyfile
    r = body["replay"]
    o = r.get("options") or {}
    t1 = r["text"]
    t2 = mappyfile.dumps(mappyfile.loads(t1), **o)
    print("replay: format twice", "identical" if t1 == t2 else "DIFFERS")
    return 0 if t1 == t2 else 1
