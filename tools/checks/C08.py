"""C08: recorded positions and validation error locations.

Runner: extracted model `loads(include_position=True)` vs the real one on
generated documents under random layouts and on corpus files (O-dict position).
Hunter: the positions the real loads records vs the positions the independent
renderer wrote the keywords at; validation messages for injected faults vs the
keyword / opener positions."""
from collections import OrderedDict
from checklib import codec
from gens import docs, sweep, harness

MANIFEST = dict(
    technique="Coq universal theorems on the lexer/LR/transformer model (position formula by induction over the scan; provenance of every recorded position by a logical predicate over all transformer callbacks) + reflection on the generated scanners + extracted-model correspondence",
    text=("Coq (Props/C08.v): for EVERY text, every token handed to the LR driver lies in the text exactly where its line/column say "
          "(line = 1 + LFs before, column = 1 + characters since the last LF; proved by induction over the scan from a soundness lemma of the backtracking matcher), "
          "the parse tree contains only such tokens, and - re-proved by vm_compute against the scanners Lark compiled from the current grammar - no terminal that Lark skips when counting "
          "newlines can match a line feed. The lexer/LR/transformer model is tied to the code by running the extracted model and the real loads(include_position=True) on generated documents "
          "under random layouts (tabs, CRLF, comments, several keywords per line, values over lines) and on corpus files; the hunter compares the recorded positions with the positions an independent "
          "renderer wrote each keyword at, and the line/column of validation messages for injected faults. [universal, Proofs/C08U*.v] for every text and either comment mode every __position__ record of the loaded dictionary "
          "(own line/column, per-keyword records including repeated keywords, POINTS and CONFIG, value pairs) is the place in the text where a token named like that keyword (or like the block's type) starts; "
          "REFUTED for the record's own entries when a keyword is itself spelled LINE or COLUMN (known finding). PARTIAL: source order of value positions and create_message's location logic are covered "
          "by correspondence and hunter, not by a theorem."),
    design_ref="DESIGN.md 7/C08",
    note="C08: Lark's run-time lexer/parser loops and tree builder are modelled (Model/Lexer.v, Model/LR.v) from the objects Lark built for the current grammar (Gen/Grammar.v); CPython `re` on the opcode subset is modelled (Lib/Regex.v).")

COMPONENTS = ["parser"]
TARGETS = []
RULE = ("schema-generated documents (depth <= 3) rendered under random layouts; corpus files; non-trivial = at least 3 keyword tokens; "
        "fault cases = one invalid enum value / unknown keyword injected per document")


def walk_positions(doc_block, d, errs, path="root"):
    """compare recorded positions of one block with the writer's"""
    pos = d.get("__position__")
    if pos is None:
        errs.append((path, "no __position__"))
        return
    if (pos.get("line"), pos.get("column")) != doc_block.pos:
        errs.append((path + "/" + doc_block.type, "opener recorded %r written %r" % ((pos.get("line"), pos.get("column")), doc_block.pos)))
    counts = {}
    # a non-repeatable keyword written twice: the dictionary keeps the LAST value, so the recorded position is the last one's
    last_of = {}
    for idx, it in enumerate(doc_block.items):
        if isinstance(it, docs.Item) and it.kind == "attr" and not it.repeated:
            last_of[it.key] = idx
    for idx, it in enumerate(doc_block.items):
        if isinstance(it, docs.Item) and it.kind == "attr" and not it.repeated and last_of.get(it.key) != idx:
            continue
        if isinstance(it, docs.Block):
            if it.singleton:
                sub = d.get(it.type)
            else:
                i = counts.get(it.type, 0)
                counts[it.type] = i + 1
                lst = d.get(docs.plural(it.type)) or []
                sub = lst[i] if i < len(lst) else None
            if not isinstance(sub, dict):
                errs.append((path + "/" + it.type, "child block missing"))
            else:
                walk_positions(it, sub, errs, path + "/" + it.type)
            continue
        rec = pos.get(it.key)
        want = it.key_pos
        if it.kind == "kv":
            sub = d.get(it.key)
            rec = sub.get("__position__") if isinstance(sub, dict) else None
            got = [(rec.get("line"), rec.get("column"))] if isinstance(rec, dict) else None
        elif it.kind == "config":
            sub = (rec or {}).get(it.intended[1][0][0]) if isinstance(rec, dict) else None
            got = [(sub.get("line"), sub.get("column"))] if isinstance(sub, dict) else None
        elif it.repeated:
            i = counts.get("rep:" + it.key, 0)
            counts["rep:" + it.key] = i + len(want)
            got = [(r.get("line"), r.get("column")) for r in (rec or [])[i:i + len(want)]] if isinstance(rec, list) else None
        elif isinstance(rec, dict):
            got = [(rec.get("line"), rec.get("column"))]
        elif isinstance(rec, list):          # repeated POINTS
            got = [(r.get("line"), r.get("column")) for r in rec][-1:]
        else:
            got = None
        if got != want[:len(got or [])] or not got:
            errs.append((path + "/" + it.key, "keyword recorded %r written %r" % (got, want)))
            continue
        # value positions: in source order; exact for simple tokens
        if isinstance(rec, dict) and "values" in rec and it.kind == "attr" and not it.repeated:
            vals = [tuple(v) for v in rec["values"]]
            if vals != sorted(vals):
                errs.append((path + "/" + it.key, "value positions not in source order %r" % (vals,)))
            simple = [(l, c) for k, l, c in it.val_pos if k in ("num", "qstr", "enum", "kw")]
            if len(simple) == len(it.val_pos) and vals != simple:
                errs.append((path + "/" + it.key, "value positions recorded %r written %r" % (vals, simple)))


def first_enum_item(b):
    for it in b.items:
        if isinstance(it, docs.Block):
            r = first_enum_item(it)
            if r:
                return r
        elif it.shape.startswith("enum:") and it.kind == "attr" and it.tokens[1].kind == "enum" \
                and it.key not in docs.object_types() \
                and all(x.shape.startswith("enum:") for x in docs.slot_items(b.type) if x.key == it.key):
            # a keyword whose ONLY alternatives are enumerated words: any other word is a fault.  When the keyword is
            # written twice in the block (same token objects) the last occurrence is the one the dictionary keeps
            last = [x for x in b.items if isinstance(x, docs.Item) and x.key == it.key and x.kind == "attr"][-1]
            return (b, last)
    return None


def run(ctx):
    rng = ctx.rng
    n_docs = ctx.budget(250, 3000)
    documents = harness.gen_documents(rng, n_docs)
    import copy as _copy

    def blocks_of(b):
        yield b
        for x in b.items:
            if isinstance(x, docs.Block):
                yield from blocks_of(x)
    for doc in documents:
        if rng.random() < 0.4:
            for root in (doc if isinstance(doc, list) else [doc]):
                b = rng.choice(list(blocks_of(root)))
                simple = [x for x in b.items if isinstance(x, docs.Item) and x.kind == "attr" and not x.repeated]
                if simple:
                    b.items.append(_copy.copy(rng.choice(simple)))      # the keyword a second time, later in the block
    cases = []
    for doc in documents:
        lay = harness.random_layout(rng)
        text, _, _ = docs.render(doc, lay)
        cases.append((doc, text))
    # ---- correspondence O-dict(position)
    n_bad = 0
    if ctx.model_ok:
        corp = harness.corpus_files()
        rng.shuffle(corp)
        corp = corp[:ctx.budget(40, 451)]
        # plus documents with the contract's special cases (a key given twice in a key-value block, a keyword given
        # twice, repeated POINTS, CONFIG): positions of overwritten entries are where model and code can drift apart
        extra = [docs.render(d, harness.random_layout(rng))[0] for d in harness.gen_documents(rng, ctx.budget(60, 600), contract=True)]
        texts = [t for _, t in cases] + [t for _, t in corp] + extra
        mouts = harness.model_loads([(t, True, False) for t in texts])
        for t, m in zip(texts, mouts):
            a = harness.impl_loads(t, True, False)
            if not harness.same_canon(a, m):
                n_bad += 1
                ctx.violation("correspondence:O-dict-position", "model and implementation loads(include_position=True) disagree",
                              {"text": t, "impl": repr(a)[:2000], "model": repr(m)[:2000]}, no_input=True)
        ctx.count("traces_validated_against_impl", len(texts))
        ctx.obligation("correspondence O-dict(position): extracted loads(include_position) = real loads on %d texts" % len(texts), n_bad == 0,
                       "%d disagreements" % n_bad)
    # ---- hunter: recorded positions vs the renderer's
    import mappyfile
    n_pos = 0
    for i, (doc, text) in enumerate(cases):
        try:
            d = sweep.fast_loads(text, True, False) if i % 10 else mappyfile.loads(text, include_position=True)
        except Exception as ex:
            ctx.violation("generated-document-rejected:" + type(ex).__name__, "a document made of usable slots was rejected under a layout: %s" % str(ex)[:200],
                          {"text": text})
            continue
        blocks = doc if isinstance(doc, list) else [doc]
        ds = d if isinstance(d, list) else [d]
        errs = []
        for b, dd in zip(blocks, ds):
            walk_positions(b, dd, errs)
        nkeys = text.count("\n")
        ctx.note_case(text, nontrivial=len(text) > 40)
        n_pos += 1
        for pth, what in errs[:1]:
            ctx.violation("position:" + pth.split("/")[-1], "recorded position differs from where the keyword was written: %s %s" % (pth, what),
                          {"text": text, "path": pth, "detail": what})
    ctx.count("position_documents", n_pos)
    # key-value blocks: the values list holds the position of EVERY key and value token in source order, also when a
    # key is written twice (or in another letter case / quoting)
    for blk, host in (("METADATA", "MAP\n WEB\n"), ("VALIDATION", "MAP\n LAYER\n  TYPE POINT\n"), ("METADATA", "MAP\n"), ("CONNECTIONOPTIONS", "MAP\n LAYER\n  TYPE POINT\n")):
        lines = host.split("\n")[:-1]
        depth = len(lines)
        ind = " " * depth
        start = len(lines) + 1
        pairs = [('"a"', '"1"'), ('"k"', '"v"'), ("'A'", "'2'"), ('"z"', '"3"'), ('a', '"4"')]
        body = [ind + blk] + [ind + " %s %s" % kv for kv in pairs] + [ind + "END"]
        opens = sum(1 for l in lines if len(l.split()) == 1)
        text = "\n".join(lines + body + ["END"] * opens) + "\n"
        want = []
        for i, (k, v) in enumerate(pairs):
            ln = start + 1 + i
            want += [[ln, depth + 2], [ln, depth + 2 + len(k) + 1]]
        ctx.note_case(text)
        try:
            d = sweep.fast_loads(text, True, False)
            node = d
            for key in [l.strip().lower() for l in lines[1:] if len(l.split()) == 1]:
                node = node.get(key) if key in node else (node.get(docs.plural(key)) or [None])[0]
            rec = node[blk.lower()]["__position__"]
            got = [list(x) for x in rec.get("values", [])]
            if got != want:
                ctx.violation("position:kv-values", "%s with a repeated key: value positions recorded %r, written %r" % (blk, got, want), {"text": text})
        except Exception as ex:
            ctx.violation("position:kv-values", "%s with a repeated key: %s" % (blk, type(ex).__name__), {"text": text})
    # a keyword spelled like an entry of the position record itself (found by the universal provenance proof)
    for kw in ("LINE", "COLUMN"):
        text = "MAP\n  %s 5\nEND" % kw
        ctx.note_case(text)
        try:
            d = sweep.fast_loads(text, True, False)
            own = d["__position__"].get(kw.lower())
            if own != (1 if kw == "LINE" else 1):
                ctx.violation("position:own-line-overwritten", "the block's own %s in its __position__ record is %r after a keyword spelled %s" % (kw.lower(), own, kw), {"text": text})
        except Exception as ex:
            ctx.violation("position:own-line-overwritten", "loads raises %s on a keyword spelled %s" % (type(ex).__name__, kw), {"text": text})
    # ---- hunter: validation message locations for injected faults
    n_fault = 0
    for doc, _ in cases[:ctx.budget(120, 1500)]:
        if isinstance(doc, list):
            continue
        hit = first_enum_item(doc)
        if not hit or doc.type != "map":
            continue
        blk, it = hit
        old = it.tokens[1].text
        it.tokens[1].text = "ZZBOGUS"
        text, _, _ = docs.render(doc, docs.Layout(rng=rng, sep="wild", one_per_line=False, newline="\n", comments=False))
        it.tokens[1].text = old
        try:
            d = sweep.fast_loads(text, True, False)
            msgs = mappyfile.validate(d)
        except Exception as ex:
            ctx.violation("validate-raises:" + type(ex).__name__, "validate raised on a document with one invalid enum value: %s" % str(ex)[:200], {"text": text})
            continue
        n_fault += 1
        want = it.key_pos[0]
        named = [m for m in msgs if m.get("message", "").upper().endswith(" " + it.key.upper())]
        if not named:
            ctx.violation("fault-not-reported:" + it.key, "invalid enum value for %s produced no message naming it" % it.key, {"text": text, "messages": msgs})
        elif all((m.get("line"), m.get("column")) != want for m in named):
            ctx.violation("message-location:keyword", "message for %s carries %r, keyword is at %r" % (it.key, [(m.get("line"), m.get("column")) for m in named], want),
                          {"text": text, "messages": named})
    ctx.count("fault_documents", n_fault)
    # ---- the same fault at the same path in two root blocks of one text, validated in one call: each message
    # must carry the position of the keyword in ITS root
    n_multi = 0
    for doc, _ in cases[:ctx.budget(120, 1500)]:
        if isinstance(doc, list) or doc.type != "map" or not first_enum_item(doc):
            continue
        twin = _copy.deepcopy(doc)
        pair = [doc, twin]
        its = [first_enum_item(b)[1] for b in pair]
        olds = [it.tokens[1].text for it in its]
        for it in its:
            it.tokens[1].text = "ZZBOGUS"
        text, _, _ = docs.render(pair, docs.Layout(rng=rng, sep="wild", one_per_line=True, newline="\n", comments=False))
        for it, o in zip(its, olds):
            it.tokens[1].text = o
        try:
            d = sweep.fast_loads(text, True, False)
            msgs = mappyfile.validate(d)
        except Exception as ex:
            ctx.violation("validate-raises:" + type(ex).__name__, "validate raised on a two-root document with one invalid enum value per root: %s" % str(ex)[:200], {"text": text})
            continue
        n_multi += 1
        key = its[0].key
        named = [(m.get("line"), m.get("column")) for m in msgs if m.get("message", "").upper().endswith(" " + key.upper())]
        wants = [it.key_pos[0] for it in its]
        missing = [w for w in wants if w not in named]
        if missing:
            ctx.violation("message-location:multi-root", "two roots with the same fault: messages for %s carry %r, the keywords are at %r" % (key, named, wants),
                          {"text": text, "messages": msgs})
        if n_multi >= ctx.budget(25, 300):
            break
    ctx.count("multi_root_fault_documents", n_multi)
    # ---- a fault in one occurrence of a repeatable keyword: the block records a LIST of positions for it; validate
    # must not raise and the message must carry the line of the failing occurrence
    for kw, host in (("PROCESSING", "LAYER\n  TYPE POINT"), ("FORMATOPTION", "OUTPUTFORMAT\n  NAME 'o'")):
        for bad_at in (0, 1, 2):
            lines = ["MAP"] + host.split("\n")
            occ = []
            for i in range(3):
                occ.append(len(lines) + 1)
                lines.append("  %s %s" % (kw, "5" if i == bad_at else '"K%d=V"' % i))
            lines += ["END", "END"]
            text = "\n".join(lines) + "\n"
            ctx.note_case(text)
            try:
                d = sweep.fast_loads(text, True, False)
                msgs = mappyfile.validate(d)
            except Exception as ex:
                ctx.violation("validate-raises:" + type(ex).__name__, "validate raised on an invalid value in one occurrence of the repeatable keyword %s (positions recorded): %s" % (kw, str(ex)[:150]), {"text": text})
                continue
            named = [(m.get("line"), m.get("column")) for m in msgs if m.get("message", "").upper().endswith(" " + kw)]
            if (occ[bad_at], 3) not in named:
                ctx.violation("message-location:repeated-keyword", "invalid value in occurrence %d of %s: messages at %r, that occurrence is at %r" % (bad_at, kw, named, (occ[bad_at], 3)),
                              {"text": text, "messages": msgs})
    # object-level error: unknown keyword in nested blocks -> opener of the enclosing block
    for ty_path in (["map"], ["map", "layer"], ["map", "layer", "class"], ["map", "web"], ["map", "legend"], ["map", "layer", "class", "style"]):
        blocks = []
        for ty in ty_path:
            blocks.append(docs.Block(ty, [], ty in ("web", "legend")))
        for a, b in zip(blocks, blocks[1:]):
            a.items.append(b)
        blocks[-1].items.append(docs.Item("zzunknown", [docs.kw("zzunknown"), docs.numtok(1)], 1, "unknown"))
        text, _, _ = docs.render(blocks[0], docs.Layout())
        try:
            msgs = mappyfile.validate(sweep.fast_loads(text, True, False))
        except Exception as ex:
            ctx.violation("validate-raises:" + type(ex).__name__, "validate raised on an unknown keyword", {"text": text})
            continue
        want = blocks[-1].pos
        locs = [(m.get("line"), m.get("column")) for m in msgs]
        ctx.note_case(text)
        if want not in locs:
            ctx.violation("message-location:object-level:" + ("singleton" if blocks[-1].singleton else "listed"),
                          "unknown keyword in %s: messages at %r, enclosing block opens at %r" % ("/".join(ty_path), locs, want),
                          {"text": text, "messages": msgs})
    ctx.sample({"text": cases[0][1][:300]})
    ctx.sample({"layout": "random case/separators/quotes/newline; positions recorded by the renderer while writing"})


def replay(ctx, body):
    import mappyfile
    t = body["replay"]["text"]
    d = mappyfile.loads(t, include_position=True)
    print("replay: loaded; validate ->", mappyfile.validate(d))
    return 0
