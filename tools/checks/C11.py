"""C11: any input is parsed or rejected with a Lark error, promptly.

Runner: extracted model loads vs real loads on the malformed stream (outcome
class, line/column of syntax errors).  Hunter: the real API must raise only
lark.exceptions.LarkError subclasses, syntax errors carry line and column, every
block type is accepted at the root, time grows roughly linearly."""
import time
from checklib import codec, build
from checklib.guarded import Guarded
from gens import docs, sweep, harness, mutate

MANIFEST = dict(
    technique="Coq universal theorems on the regex/lexer/LR/transformer model (failure classes of loads for every text, fuel adequacy, grammar conformance of returned trees) with table and scanner validators proved sound and discharged by vm_compute on the generated grammar + extracted-model correspondence on a malformed-input stream + deadline-guarded runs of the real loads",
    text=("Coq (Props/C11.v): on the model, for EVERY text, loads returns a value or fails with a lark VisitError or an UnexpectedCharacters/UnexpectedToken carrying the offending position - nothing else (C11_loads_failure_classes, no longer partial). "
          "Ingredients: the retyping hook is total (its only partial operation is guarded - the former IndexError is listed as fixed); every failure of the transformer stage is a VisitError (induction over the tree, all callbacks); "
          "an LR table validator (Proofs/LRFacts.v) is proved sound and discharged by vm_compute on the LALR table Lark built for the current grammar, so the driver's internal failure modes (missing rule/goto, stack underflow, assertion, inlining a token) are excluded; "
          "Proofs/Fuel.v shows the model never runs out of fuel: every terminal pattern of every scanner is non-nullable (kernel-evaluated, sound nullability analysis), so every token consumes a character, the matcher's answer is independent of its fuel once it covers the rest of the input, "
          "and a second validator bounds the reductions between two shifts by the model's own bound; Proofs/LRTyping.v shows every returned tree conforms to the grammar (symbol-typing invariant of the stacks). By vm_compute each of the block types the grammar can open is accepted at the root. "
          "The correspondence runs compare the extracted model with the real loads on token-level mutations of corpus and "
          "generated documents, token soups, unterminated constructs, nested expressions up to depth 100 and long repetitive inputs. Wall-clock time and the interpreter recursion limit are outside the model: the hunter runs every input in a child process under a deadline "
          "(a pattern that explodes cannot be interrupted inside CPython) and measures time against length."),
    design_ref="DESIGN.md 7/C11, 11.2",
    note="C11: lines starting with INCLUDE are neutralised in generated inputs (INCLUDE expansion and its I/O errors belong to C15). Lark run-time, CPython re modelled.")

COMPONENTS = ["parser"]
TARGETS = []
RULE = ("malformed stream: one to three token-level mutations (delete/duplicate/swap/truncate/splice/replace/insert delimiter) of corpus files and generated documents, "
        "token soups, unterminated strings/regexes/comments/brackets, nesting <= 100, repetitive inputs up to 2e5 (quick) / 2e6 (thorough) characters; non-trivial = input longer than 10 characters")


def lark_family(ex):
    import lark
    return isinstance(ex, lark.exceptions.LarkError)


_guard = None


def deadline(text):
    """generous bound for "promptly": 20 s plus 1 s per 2000 characters (the pinned tree needs about 1 s per 25000)"""
    return 20.0 + len(text) / 2000.0


def classify_guarded(text):
    """real API outcome in a child process under a deadline:
    ('ok',) | ('lark', class, line, col) | ('other', class) | ('timeout', s) | ('died',)"""
    global _guard
    if _guard is None:
        _guard = Guarded(build.REPO)
    return _guard.classify(text, deadline(text))


def classify(text):
    """real API outcome: ('ok',) | ('lark', class, line, col) | ('other', class)"""
    import lark
    try:
        sweep.fast_loads(text)
        return ("ok",)
    except Exception as ex:  # noqa
        if isinstance(ex, lark.exceptions.UnexpectedInput):
            line = getattr(ex, "line", None)
            col = getattr(ex, "column", None)
            return ("lark", type(ex).__name__, line, col)
        if lark_family(ex):
            return ("lark", type(ex).__name__, None, None)
        return ("other", type(ex).__name__)


def run(ctx):
    rng = ctx.rng
    corp = [t for _, t in harness.corpus_files() if len(t) < 6000]
    rng.shuffle(corp)
    gen_texts = []
    for doc in harness.gen_documents(rng, 60):
        gen_texts.append(docs.render(doc, harness.random_layout(rng))[0])
    base = corp[:120] + gen_texts
    inputs = []
    n_mut = ctx.budget(700, 12000)
    for _ in range(n_mut):
        t = rng.choice(base)
        for _ in range(rng.randrange(1, 4)):
            t = mutate.mutate(rng, t, rng.choice(base))
        inputs.append(t)
    for _ in range(ctx.budget(300, 4000)):
        inputs.append(mutate.soup(rng, rng.randrange(1, 40)))
    for _ in range(ctx.budget(60, 600)):
        inputs.append(mutate.unterminated(rng))
    for _ in range(ctx.budget(20, 200)):
        inputs.append(mutate.nested(rng, rng.randrange(2, 101)))
    inputs += ["", " ", "\n", "END", "MAP", "GRID END", "foo bar", "NAME 'x'", "(", "\x00", "é", "MAP NAME é END", "﻿MAP END"]
    kinds = {}
    # ---- hunter on the real API
    stalled = set()
    for t in inputs:
        r, _secs = classify_guarded(t)
        kinds[r[0] if r[0] != "lark" else r[1]] = kinds.get(r[0] if r[0] != "lark" else r[1], 0) + 1
        ctx.note_case(t, nontrivial=len(t) > 10)
        if r[0] in ("timeout", "died"):
            stalled.add(t)
            small = t
            if r[0] == "timeout" and len(stalled) <= 3:
                # shrink towards a short input that still needs more than 5 s (each probe is bounded)
                from checklib.shrink import shrink_list
                g2 = Guarded(build.REPO)
                try:
                    small = "".join(shrink_list(mutate.tokens(t), lambda s: g2.classify("".join(s), 5.0)[0][0] == "timeout", max_rounds=40))
                finally:
                    g2.close()
            ctx.violation("not-prompt:" + r[0], "loads did not answer within %.0f s on a %d-character input (%s)" % (deadline(t), len(t), r[0]), {"text": small, "original": t[:2000]})
        elif r[0] == "other":
            from checklib.shrink import shrink_list
            toks = mutate.tokens(t)
            small = shrink_list(toks, lambda s: classify("".join(s)) == r)
            ctx.violation("non-lark-exception:" + r[1], "loads raised %s (not a lark.exceptions.LarkError)" % r[1], {"text": "".join(small)})
        elif r[0] == "lark" and r[1] in ("UnexpectedToken", "UnexpectedCharacters") and (not r[2] or not r[3]):
            ctx.violation("syntax-error-without-position", "%s without line/column" % r[1], {"text": t})
    ctx.coverage["outcome_histogram"] = kinds
    # ---- correspondence on the same stream
    if ctx.model_ok:
        sel = [t for t in inputs if len(t) < 4000 and t not in stalled]
        mouts = harness.model_loads([(t, False, False) for t in sel])
        n_bad = 0
        for t, m in zip(sel, mouts):
            a = harness.impl_loads(t)
            okm = not (isinstance(m, tuple) and m and m[0] == "exn")
            oka = not (isinstance(a, tuple) and a and a[0] == "exn")
            same = harness.same_canon(a, m) if (okm and oka) else (okm == oka and (okm or (a[1] == m[1] and (a[1] not in (1, 2) or a[2:] == m[2:]))))
            if not same:
                n_bad += 1
                ctx.violation("correspondence:O-dict-malformed", "model and implementation disagree on a malformed input",
                              {"text": t, "impl": repr(a)[:600], "model": repr(m)[:600]}, no_input=True)
        ctx.count("traces_validated_against_impl", len(sel))
        ctx.obligation("correspondence O-dict on the malformed stream (%d inputs: same outcome class, same error position)" % len(sel), n_bad == 0,
                       "%d disagreements" % n_bad)
    # ---- every block type at the root
    import mappyfile
    for ty in docs.object_types() + ["metadata", "validation", "connectionoptions", "symbolset"]:
        t = ty.upper() + "\nEND"
        r, _secs = classify_guarded(t)
        ctx.note_case("root:" + ty)
        if r[0] != "ok":
            ctx.violation("root-block-rejected:" + ty, "%s END is not accepted at the root: %r" % (ty.upper(), r), {"text": t})
    # ---- a rejected input must not influence the next call: after each of several failing texts (ending in the
    # keywords the token-retyping hook looks at, in an open string, in a half-read block) every root block type is
    # still accepted - through one reused Parser and through the module-level loads
    poisons = ["LAYER TYPE POINT NAME", "STYLE SYMBOL", "MAP NAME", "CLASS STYLE SYMBOL circle", "MAP NAME 'unterminated", "LAYER NAME grid", "MAP LAYER", "END END"]
    root_types = docs.object_types() + ["metadata", "validation", "connectionoptions", "symbolset"]
    g_mod = Guarded(build.REPO, module_api=True)
    n_hist = 0
    try:
        for pi, poison in enumerate(poisons):
            for ty in root_types:
                t = ty.upper() + "\nEND"
                for which, g in (("reused Parser", None), ("mappyfile.loads", g_mod)):
                    if g is g_mod and (pi > 1 and ctx.tier == "quick"):
                        continue
                    if g is None:
                        classify_guarded(poison)
                        r, _s = classify_guarded(t)
                    else:
                        g.classify(poison, 30.0)
                        r, _s = g.classify(t, 30.0)
                    n_hist += 1
                    ctx.note_case(("after", poison, ty, which))
                    if r[0] != "ok":
                        ctx.violation("root-block-rejected-after-failure:" + ty, "%s END is not accepted at the root by %s after the rejected input %r: %r" % (ty.upper(), which, poison, r),
                                      {"text": t, "history": [poison], "api": which})
    finally:
        g_mod.close()
    ctx.count("history_after_failure_cases", n_hist)
    # ---- time against length: valid documents (parsed completely) and documents failing at their end
    sizes = [20000, 200000] + ([2000000] if ctx.tier == "thorough" else [])
    units = mutate.VALID_UNITS if ctx.tier == "thorough" else rng.sample(mutate.VALID_UNITS, 4)
    for unit in units:
        for valid in (True, False):
            times = []
            for n in sizes:
                t = mutate.repetitive(rng, n, unit, valid)
                r, secs = classify_guarded(t)
                times.append((len(t), secs))
                if r[0] in ("timeout", "died"):
                    ctx.violation("not-prompt:" + r[0], "loads did not answer within %.0f s on a %d-character repetitive input" % (deadline(t), len(t)), {"text": t[:2000], "unit": unit, "valid": valid})
                    break
                if valid and r[0] != "ok":
                    ctx.violation("long-valid-document-rejected", "a long repetitive valid document was rejected: %r" % (r,), {"text": t[:300]})
            ctx.coverage.setdefault("timing", []).append({"unit": unit, "valid": valid, "times": [(n, round(s, 4)) for n, s in times]})
            for (n1, s1), (n2, s2) in zip(times, times[1:]):
                if s2 > 0.5 and s2 / max(s1, 1e-4) > 4.0 * (n2 / n1):
                    ctx.violation("super-linear-time", "parse time grows faster than 4x linear between %d and %d characters (%.3fs -> %.3fs)" % (n1, n2, s1, s2),
                                  {"unit": unit, "valid": valid, "times": times})
    if _guard is not None:
        _guard.close()
    ctx.sample({"mutated": inputs[0][:200]})
    ctx.sample({"soup": inputs[n_mut][:200]})


def replay(ctx, body):
    r, secs = classify_guarded(body["replay"]["text"])
    print("replay:", r, "%.2fs" % secs)
    return 1 if r[0] in ("other", "timeout", "died") else 0
