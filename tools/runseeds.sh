#!/bin/sh
# all quick checks on the unchanged tree under several VERIF_SEED values
cd "$(dirname "$0")/.."
for sd in "$@"; do
  echo "== VERIF_SEED=$sd"
  VERIF_SEED=$sd ./tools/runall.sh
done
