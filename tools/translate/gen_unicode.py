"""str.lower / str.upper of the running interpreter -> coq/Gen/Unicode.v.

Every code point whose image under str.lower (str.upper) is not itself, with
its full (possibly multi-character) image.  ASCII is handled arithmetically by
the model and is checked against this table inside Coq."""
import sys
from common import write_if_changed

def table(fn):
    rows = []
    for c in range(0x110000):
        if 0xD800 <= c <= 0xDFFF:
            continue
        ch = chr(c)
        img = fn(ch)
        if img != ch:
            rows.append("(%d, [%s])" % (c, ";".join(str(ord(x)) for x in img)))
    return rows

def main():
    out = ["(* GENERATED from the running interpreter's str.lower/str.upper - do not edit *)",
           "From MF Require Import Lib.Base.", "Open Scope N_scope.", ""]
    for name, fn in (("lower_table", str.lower), ("upper_table", str.upper)):
        rows = table(fn)
        out.append("Definition %s : list (N * list N) :=\n [%s].\n" % (name, ";\n  ".join(rows)))
    return write_if_changed("Unicode.v", "\n".join(out))

if __name__ == "__main__":
    print("Unicode.v", "changed" if main() else "unchanged")
