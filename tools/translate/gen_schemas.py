"""mappyfile/schemas/*.json -> coq/Gen/Schemas.v (regenerated every run).
$refs stay unexpanded; object key order is the file's. Fails closed on a
schema keyword outside the census the model knows."""
import json, os, sys, glob
from collections import OrderedDict
from common import cstr, write_if_changed, Unsupported
from checklib.codec import float_me

CENSUS = {"type", "enum", "items", "minimum", "maximum", "exclusiveMinimum", "exclusiveMaximum", "minItems", "maxItems",
          "minLength", "maxLength", "pattern", "properties", "patternProperties", "additionalProperties",
          "required", "oneOf", "anyOf", "allOf", "$ref", "default", "metadata", "description", "example",
          "examples", "$schema", "title", "id", "minVersion", "maxVersion", "additionalItems", "uniqueItems", "not", "definitions"}


def emit(j):
    if j is None:
        return "JNull"
    if isinstance(j, bool):
        return "JBool %s" % ("true" if j else "false")
    if isinstance(j, int):
        return "JInt (%d)" % j
    if isinstance(j, float):
        m, e = float_me(j)
        return "JFloat (%d) (%d)" % (m, e)
    if isinstance(j, str):
        return "JStr %s" % cstr(j)
    if isinstance(j, list):
        return "JArr [%s]" % "; ".join("(%s)" % emit(x) for x in j) if j else "JArr []"
    if isinstance(j, dict):
        if not j:
            return "JObj []"
        return "JObj [%s]" % ";\n ".join("(%s, %s)" % (cstr(k), emit(v)) for k, v in j.items())
    raise Unsupported("JSON value %r" % (j,))


def check_census(name, j, in_props=False):
    """Every key used in schema position must be in the census."""
    if isinstance(j, dict):
        for k, v in j.items():
            if not in_props and k not in CENSUS:
                raise Unsupported("schema keyword %r in %s" % (k, name))
            if k in ("properties", "patternProperties", "definitions") and not in_props:
                if isinstance(v, dict):
                    for pk, pv in v.items():
                        check_census(name, pv)
            elif k in ("enum", "default", "example", "examples", "metadata", "required") and not in_props:
                continue
            else:
                check_census(name, v)
    elif isinstance(j, list):
        for x in j:
            check_census(name, x)


def main():
    import mappyfile
    folder = os.path.join(os.path.dirname(os.path.realpath(mappyfile.__file__)), "schemas")
    out = ["(* GENERATED from mappyfile/schemas/*.json - do not edit *)",
           "From MF Require Import Lib.Base Lib.Json.", "Open Scope Z_scope.", ""]
    names = []
    for fn in sorted(glob.glob(os.path.join(folder, "*.json"))):
        base = os.path.splitext(os.path.basename(fn))[0]
        with open(fn, encoding="utf-8") as f:
            j = json.load(f, object_pairs_hook=OrderedDict)
        check_census(base, j)
        ident = "schema_" + "".join(c if c.isalnum() else "_" for c in base)
        out.append("Definition %s : json :=\n %s.\n" % (ident, emit(j)))
        names.append((base, ident))
    out.append("Definition schema_files : list (str * json) :=\n [%s].\n" % ";\n  ".join("(%s, %s)" % (cstr(b + ".json"), i) for b, i in names))
    return write_if_changed("Schemas.v", "\n".join(out))


if __name__ == "__main__":
    print("Schemas.v", "changed" if main() else "unchanged")
