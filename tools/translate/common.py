"""Shared helpers for the translators: Coq literal emission, write-if-changed."""
import os, sys, hashlib

GEN = os.path.join(os.path.dirname(os.path.dirname(os.path.dirname(os.path.abspath(__file__)))), "coq", "Gen")

def cstr(s):
    """Python str -> Coq term of type str (list N)."""
    if not s:
        return "([] : str)"
    return "[" + ";".join(str(ord(c)) for c in s) + "]%N"

def clist(items, ty=None):
    if not items:
        return "([] : list %s)" % ty if ty else "[]"
    return "[" + ";\n  ".join(items) + "]"

def cz(z):
    return "(%d)%%Z" % z

def write_if_changed(name, text):
    os.makedirs(GEN, exist_ok=True)
    path = os.path.join(GEN, name)
    old = None
    if os.path.exists(path):
        with open(path, encoding="utf-8") as f:
            old = f.read()
    if old != text:
        with open(path, "w", encoding="utf-8") as f:
            f.write(text)
        return True
    return False

class Unsupported(Exception):
    """Fail closed: a construct outside what the translator knows."""
