"""CPython `re` parse tree -> Coq term of type Lib.Regex.rx (fail closed).

Case-insensitive matching is compiled away: every literal / class inside an
(?i:...) scope is replaced by the explicit set of code points the running `re`
accepts for it.  The set is computed over the candidate code points (every
cased code point plus the class's own members) and then CHECKED against the
real compiled class on candidates, range borders and a random sample."""
import re, random
import re._parser as sp
import re._constants as sc
from common import Unsupported

I, S_ = re.IGNORECASE, re.DOTALL
_rng = random.Random(12345)
_CASED = None


def cased_points():
    global _CASED
    if _CASED is None:
        out = []
        for c in range(0x110000):
            if 0xD800 <= c <= 0xDFFF:
                continue
            ch = chr(c)
            if ch.lower() != ch or ch.upper() != ch or ch.casefold() != ch:
                out.append(c)
        _CASED = out
    return _CASED


def to_ranges(points):
    pts = sorted(set(points))
    out = []
    for p in pts:
        if out and out[-1][1] + 1 == p:
            out[-1][1] = p
        else:
            out.append([p, p])
    return [(a, b) for a, b in out]


def class_src(ranges):
    def esc(c):
        return "\\U%08x" % c
    return "[" + "".join(esc(a) if a == b else esc(a) + "-" + esc(b) for a, b in ranges) + "]"


_cache = {}


def icase_ranges(ranges):
    key = tuple(ranges)
    if key in _cache:
        return _cache[key]
    pat = re.compile("(?i:%s)" % class_src(ranges))
    members = []
    for a, b in ranges:
        if b - a > 70000:
            raise Unsupported("huge class under (?i)")
        members += range(a, b + 1)
    cand = set(cased_points()) | set(members)
    pts = [c for c in cand if pat.fullmatch(chr(c))]
    out = to_ranges(pts)
    # self-check against the real engine
    probe = set(cand)
    for a, b in out:
        probe.update((max(a - 1, 0), min(b + 1, 0x10FFFF)))
    probe.update(_rng.randrange(0x110000) for _ in range(3000))
    for c in probe:
        if 0xD800 <= c <= 0xDFFF:
            continue
        real = pat.fullmatch(chr(c)) is not None
        mine = any(a <= c <= b for a, b in out)
        if real != mine:
            raise Unsupported("case-insensitive class expansion disagrees with re at U+%04X" % c)
    _cache[key] = out
    return out


def cranges(rs):
    return "[" + ";".join("(%d,%d)" % (a, b) for a, b in rs) + "]"


def cset(neg, rs):
    return "RSet %s %s" % ("true" if neg else "false", cranges(rs) if rs else "[]")


def seq(items):
    if not items:
        return "REps"
    out = items[-1]
    for it in reversed(items[:-1]):
        out = "RSeq (%s) (%s)" % (it, out)
    return out


def alt(items):
    out = items[-1]
    for it in reversed(items[:-1]):
        out = "RAlt (%s) (%s)" % (it, out)
    return out


def nullable(sub):
    """conservative: can this parsed sub-pattern match the empty string?"""
    for op, av in sub:
        op = str(op)
        if op in ("LITERAL", "NOT_LITERAL", "ANY", "IN"):
            return False
        if op in ("MAX_REPEAT", "MIN_REPEAT"):
            if av[0] > 0 and not nullable(av[2]):
                return False
        elif op == "SUBPATTERN":
            if not nullable(av[3]):
                return False
        elif op == "BRANCH":
            if not any(nullable(b) for b in av[1]):
                return False
        elif op in ("ASSERT_NOT", "AT"):
            continue
        else:
            raise Unsupported("regex opcode %s" % op)
    return True


def conv(sub, flags):
    items = []
    for op, av in sub:
        ops = str(op)
        if ops == "LITERAL":
            rs = [(av, av)]
            if flags & I:
                rs = icase_ranges(rs)
            items.append(cset(False, rs))
        elif ops == "NOT_LITERAL":
            rs = [(av, av)]
            if flags & I:
                rs = icase_ranges(rs)
            items.append(cset(True, rs))
        elif ops == "ANY":
            items.append(cset(True, [] if flags & S_ else [(10, 10)]))
        elif ops == "IN":
            neg = False
            rs = []
            for o, a in av:
                os_ = str(o)
                if os_ == "NEGATE":
                    neg = True
                elif os_ == "LITERAL":
                    rs.append((a, a))
                elif os_ == "RANGE":
                    rs.append((a[0], a[1]))
                else:
                    raise Unsupported("class item %s" % os_)
            rs = to_ranges([c for a, b in rs for c in range(a, b + 1)]) if sum(b - a for a, b in rs) < 70000 else rs
            if flags & I:
                rs = icase_ranges(rs)
            items.append(cset(neg, rs))
        elif ops == "BRANCH":
            items.append(alt([conv(b, flags) for b in av[1]]))
        elif ops == "SUBPATTERN":
            group, add, dele, p = av
            items.append(conv(p, (flags | add) & ~dele))
        elif ops in ("MAX_REPEAT", "MIN_REPEAT"):
            mn, mx, item = av
            if nullable(item):
                raise Unsupported("repeat of a nullable item")
            mxs = "None" if mx == sc.MAXREPEAT else "(Some %d%%nat)" % mx
            items.append("RRep %s %d%%nat %s (%s)" % ("true" if ops == "MAX_REPEAT" else "false", mn, mxs, conv(item, flags)))
        elif ops == "ASSERT_NOT":
            direction, p = av
            if direction != 1:
                raise Unsupported("look-behind")
            items.append("RNotAhead (%s)" % conv(p, flags))
        elif ops == "AT":
            a = str(av)
            if a == "AT_BEGINNING":
                items.append("RBol")
            elif a == "AT_END":
                items.append("REol")
            else:
                raise Unsupported("anchor %s" % a)
        else:
            raise Unsupported("regex opcode %s" % ops)
    return seq(items)


def regex_to_coq(pattern, flags=0):
    parsed = sp.parse(pattern, flags)
    gflags = parsed.state.flags
    if gflags & ~(re.UNICODE | I | S_):
        raise Unsupported("regex flags %r in %r" % (gflags, pattern))
    return conv(parsed, gflags)
