"""tokens.py tables and parser.SYMBOL_ATTRIBUTES -> coq/Gen/Tokens.v (regenerated every run)."""
import sys
from common import cstr, clist, write_if_changed, Unsupported

def strs(name, it, ordered=False):
    vals = list(it)
    for v in vals:
        if not isinstance(v, str):
            raise Unsupported("%s contains a non-string: %r" % (name, v))
    if not ordered:
        vals = sorted(vals)
    return "Definition %s : list str :=\n  %s.\n" % (name, clist([cstr(v) for v in vals], "str"))

def main():
    import mappyfile.tokens as T
    import mappyfile.parser as P
    out = ["(* GENERATED from mappyfile/tokens.py and parser.py - do not edit *)",
           "From MF Require Import Lib.Base.", ""]
    for name, ordered in (("COMPLEX_TYPES", False), ("COMPOSITE_NAMES", False),
                          ("SINGLETON_COMPOSITE_NAMES", False), ("REPEATED_KEYS", True),
                          ("OBJECT_LIST_KEYS", False)):
        val = getattr(T, name)
        if not isinstance(val, (frozenset, set, tuple, list)):
            raise Unsupported("tokens.%s has type %s" % (name, type(val)))
        out.append(strs(name, val, ordered))
    sa = P.SYMBOL_ATTRIBUTES
    if not isinstance(sa, (set, frozenset, tuple, list)):
        raise Unsupported("parser.SYMBOL_ATTRIBUTES has type %s" % type(sa))
    out.append(strs("SYMBOL_ATTRIBUTES", sa))
    return write_if_changed("Tokens.v", "\n".join(out))

if __name__ == "__main__":
    print("Tokens.v", "changed" if main() else "unchanged")
