"""The finite product of C19/C02: every (object type, keyword, value alternative)
slot of the RAW schema files as mini documents (root / nested first / nested last)
with their intended structure -> coq/Gen/SlotDocs.v.  The documents come from
tools/gens/docs.py (schema walk + independent renderer); nothing of mappyfile's
parser is used here."""
import sys, os
from common import cstr, write_if_changed, Unsupported
sys.path.insert(0, os.path.join(os.path.dirname(os.path.dirname(os.path.abspath(__file__)))))
from gens import docs, sweep
from checklib.codec import float_me


def cval(v):
    if v is None:
        return "VNone"
    if isinstance(v, bool):
        return "VBool %s" % ("true" if v else "false")
    if isinstance(v, int):
        return "VInt (%d)" % v
    if isinstance(v, float):
        m, e = float_me(v)
        return "VFloat (%d) (%d)" % (m, e)
    if isinstance(v, str):
        return "VStr %s" % cstr(v)
    if isinstance(v, (list, tuple)):
        return "VList [%s]" % "; ".join(cval(x) for x in v) if v else "VList []"
    if isinstance(v, dict):
        return "VDict DPlain [%s]" % "; ".join("(%s, %s)" % (cstr(k), cval(x)) for k, x in v.items()) if v else "VDict DPlain []"
    raise Unsupported("intended value %r" % (v,))


def main():
    rows = []
    for ot in docs.object_types():
        for it in docs.slot_items(ot):
            for name, doc in sweep.slot_contexts(ot, it):
                if name not in ("root/only", "nested/first", "nested/last", "root/first", "root/last"):
                    continue
                text, _, _ = docs.render(doc, docs.Layout())
                want = docs.intended_block(doc)
                rows.append("mk_slotdoc %s %s %s %s\n   %s\n   (%s)" % (cstr(ot), cstr(it.key), cstr(it.shape), cstr(name), cstr(text), cval(want)))
    # shards: separate files so that make builds them (and the reflection proofs over them) in parallel
    n_shards = 8
    changed = False
    head = ["(* GENERATED from mappyfile/schemas/*.json by tools/gens/docs.py - do not edit *)",
            "From MF Require Import Lib.Base Model.SlotDoc.", "Open Scope Z_scope.", ""]
    for i in range(n_shards):
        part = rows[i::n_shards]
        txt = "\n".join(head) + "Definition slotdocs : list slotdoc :=\n [%s].\n" % ";\n  ".join(part)
        changed |= write_if_changed("SlotDocs%d.v" % i, txt)
    return changed


if __name__ == "__main__":
    print("SlotDocs*.v", "changed" if main() else "unchanged")
