"""The grammar exactly as Lark compiled it for mappyfile.parser.Parser()
-> coq/Gen/Grammar.v : terminals (regex ASTs), the distinct contextual scanners
in Lark's match order with their 'unless' tables, ignore / newline sets, the
LALR action/goto table, rule shapes and tree-builder flags.  Fail closed."""
import sys, re
from common import cstr, write_if_changed, Unsupported
from rxconv import regex_to_coq


def canon_states(pt, Shift):
    """Renumber LALR states by BFS from the start state, symbols in name order
    (Lark's own numbering depends on object identity and differs between
    instances)."""
    start = pt.start_states["start"]
    num = {start: 0}
    queue = [start]
    while queue:
        st = queue.pop(0)
        for sym in sorted(pt.states[st]):
            act, arg = pt.states[st][sym]
            if act is Shift and arg not in num:
                num[arg] = len(num)
                queue.append(arg)
    if len(num) != len(pt.states):
        raise Unsupported("unreachable LALR states")
    return num


def main():
    from mappyfile.parser import Parser, SYMBOL_ATTRIBUTES
    from lark.lexer import UnlessCallback, CallChain, PatternStr, PatternRE
    from lark.parsers.lalr_analysis import Shift
    import lark
    p = Parser()
    pc = Parser(include_comments=True)
    L = p.lalr
    pf = L.parser
    cl = pf.lexer
    pt = pf.parser._parse_table
    rules = list(L.rules)

    # ---------------- symbols
    tnames = set(t.name for t in cl.root_lexer.terminals)
    nts = set()
    for st, row in pt.states.items():
        for sym, (act, arg) in row.items():
            if act is Shift:
                pass
            if sym.isupper() or sym.startswith("$") or sym.startswith("__ANON") or sym in tnames:
                tnames.add(sym)
    for r in rules:
        nts.add(r.origin.name)
        for s in r.expansion:
            (tnames if s.is_term else nts).add(s.name)
    tnames.add("$END")
    for st, row in pt.states.items():
        for sym in row:
            if sym not in tnames and sym not in nts:
                raise Unsupported("table symbol %r is neither terminal nor non-terminal" % sym)
    terms = sorted(tnames)
    nonterms = sorted(nts)
    sid = {n: i for i, n in enumerate(terms)}
    for i, n in enumerate(nonterms):
        sid[n] = len(terms) + i

    # ---------------- regexes
    out = ["(* GENERATED from the live Lark objects of mappyfile.parser.Parser() - do not edit *)",
           "(* lark %s *)" % lark.__version__,
           "From MF Require Import Lib.Base Lib.Regex Model.GrammarTypes.", "Open Scope N_scope.", ""]
    rxname = {}
    tdefs = {t.name: t for t in cl.root_lexer.terminals}

    def rx_of(t):
        key = (t.name, t.pattern.to_regexp())
        if key not in rxname:
            ident = "rx_%d" % len(rxname)
            out.append("(* %s : %s *)" % (t.name, ascii(t.pattern.to_regexp()).replace("*)", "* )").replace("(*", "( *")))
            out.append("Definition %s : rx := %s.\n" % (ident, regex_to_coq(t.pattern.to_regexp())))
            rxname[key] = ident
        return rxname[key]

    # ---------------- lexers
    def lexer_term(lx, lxc):
        if lx.g_regex_flags != 0:
            raise Unsupported("global regex flags")
        sc = lx.scanner
        if len(sc._mres) != 1:
            raise Unsupported("scanner split into several regexes")
        tl = ["(%d, %s)" % (sid[t.name], rx_of(t)) for t in sc.terminals]
        unless = []
        for name, cb in sorted(lx.callback.items()):
            if isinstance(cb, UnlessCallback):
                if len(cb.scanner._mres) != 1:
                    raise Unsupported("unless scanner split")
                ul = ["(%s, %d)" % (rx_of(t), sid[t.name]) for t in cb.scanner.terminals]
                unless.append("(%d, [%s])" % (sid[name], "; ".join(ul)))
            else:
                raise Unsupported("lexer callback %r on %s" % (cb, name))
        # the comments variant must only add user callbacks on COMMENT / CCOMMENT
        names_c = [t.name for t in lxc.scanner.terminals]
        if names_c != [t.name for t in sc.terminals]:
            raise Unsupported("include_comments changes a scanner")
        for name, cb in lxc.callback.items():
            if isinstance(cb, UnlessCallback):
                continue
            if name not in ("COMMENT", "CCOMMENT") or isinstance(cb, CallChain):
                raise Unsupported("unexpected callback on %s" % name)
        return "mk_lexer\n   [%s]\n   [%s]\n   [%s]\n   [%s]" % (
            "; ".join(tl), ";\n    ".join(unless),
            "; ".join(str(sid[n]) for n in sorted(lx.ignore_types)),
            "; ".join(str(sid[n]) for n in sorted(lx.newline_types)))

    ptc = pc.lalr.parser.parser._parse_table
    num = canon_states(pt, Shift)
    numc = canon_states(ptc, Shift)
    inv = {v: k for k, v in num.items()}
    invc = {v: k for k, v in numc.items()}
    states = list(range(len(num)))
    if set(cl.lexers) != set(num) or set(pc.lalr.parser.lexer.lexers) != set(numc):
        raise Unsupported("lexer states differ from parser states")
    distinct = {}
    order = []
    lexer_of_state = []
    for st in states:
        lx = cl.lexers[inv[st]]
        if id(lx) not in distinct:
            distinct[id(lx)] = len(order)
            order.append((lx, pc.lalr.parser.lexer.lexers[invc[st]]))
        lexer_of_state.append(distinct[id(lx)])
    lex_defs = []
    for i, (lx, lxc) in enumerate(order):
        out.append("Definition lexer_%d : lexer_info :=\n  %s.\n" % (i, lexer_term(lx, lxc)))
        lex_defs.append("lexer_%d" % i)
    out.append("Definition lexer_root : lexer_info :=\n  %s.\n" % lexer_term(cl.root_lexer, pc.lalr.parser.lexer.root_lexer))

    # ---------------- rules
    cbnames = []
    def cbid(n):
        if n not in cbnames:
            cbnames.append(n)
        return cbnames.index(n)
    rule_idx = {}
    rdefs = []
    rules_c = list(pc.lalr.rules)
    if [str(r) for r in rules] != [str(r) for r in rules_c]:
        raise Unsupported("include_comments changes the rules")
    for i, r in enumerate(rules):
        o = r.options
        if o.template_source is not None or (o.empty_indices and any(o.empty_indices)):
            raise Unsupported("rule option on %s" % r)
        name = r.alias or r.origin.name
        keep_all = bool(o.keep_all_tokens)
        to_include = []
        for j, sym in enumerate(r.expansion):
            if keep_all or not (sym.is_term and sym.filter_out):
                to_include.append((j, (not sym.is_term) and sym.name.startswith("_")))
        if len(to_include) < len(r.expansion) or any(e for _, e in to_include):
            filt = "(Some [%s])" % "; ".join("(%d%%nat, %s)" % (j, "true" if e else "false") for j, e in to_include)
        else:
            filt = "None"
        expand1 = bool(o.expand1) and not r.alias
        rdefs.append("mk_rule %d [%s] %d %s %s" % (sid[r.origin.name], "; ".join(str(sid[s.name]) for s in r.expansion),
                                                   cbid(name), "true" if expand1 else "false", filt))
        rule_idx[r] = i
    if not p.lalr.options.maybe_placeholders is None and any(r.options.empty_indices and any(r.options.empty_indices) for r in rules):
        raise Unsupported("placeholders in use")

    # ---------------- table
    rule_idx_c = {r: i for i, r in enumerate(rules_c)}
    rows = []
    for st in states:
        ents = []
        row = pt.states[inv[st]]
        row_c = ptc.states[invc[st]]
        if set(row_c) != set(row):
            raise Unsupported("include_comments changes the parse table")
        for sym, (act, arg) in sorted(row.items(), key=lambda kv: sid[kv[0]]):
            actc, argc = row_c[sym]
            if act is Shift:
                if actc is not Shift or numc[argc] != num[arg]:
                    raise Unsupported("include_comments changes the parse table")
                ents.append("(%d, Shift %d)" % (sid[sym], num[arg]))
            else:
                if actc is Shift or rule_idx_c[argc] != rule_idx[arg]:
                    raise Unsupported("include_comments changes the parse table")
                ents.append("(%d, Reduce %d)" % (sid[sym], rule_idx[arg]))
        rows.append("[%s]" % "; ".join(ents))
    if set(pt.start_states) != {"start"}:
        raise Unsupported("start symbols %r" % (pt.start_states,))

    for need in ("UNQUOTED_STRING", "GRID", "UNQUOTED_STRING_VALUE", "COMMENT", "CCOMMENT"):
        if need not in sid:
            raise Unsupported("terminal %s is gone" % need)
    out.append("Definition the_grammar : grammar :=\n mk_grammar\n  [%s]\n  [%s]\n  [%s]\n  [%s]\n  [%s]\n  lexer_root\n  [%d; %d]\n  [%s]\n  [%s]\n  %d %d %d.\n" % (
        ";\n   ".join(cstr(n) for n in terms), ";\n   ".join(cstr(n) for n in nonterms), ";\n   ".join(cstr(n) for n in cbnames),
        "; ".join(lex_defs), "; ".join(map(str, lexer_of_state)),
        sid["COMMENT"], sid["CCOMMENT"],
        ";\n   ".join(rdefs), ";\n   ".join(rows),
        num[pt.start_states["start"]], num[pt.end_states["start"]], sid["$END"]))
    out.append("Definition T_UNQUOTED_STRING : N := %d.\nDefinition T_GRID : N := %d.\nDefinition T_UNQUOTED_STRING_VALUE : N := %d.\n"
               % (sid["UNQUOTED_STRING"], sid["GRID"], sid["UNQUOTED_STRING_VALUE"]))
    # callback-name constants used by the transformer model
    for n in cbnames:
        ident = "CB_" + re.sub(r"[^A-Za-z0-9_]", "_", n)
        out.append("Definition %s : N := %d." % (ident, cbnames.index(n)))
    out.append("")
    for n in terms:
        ident = "TM_" + re.sub(r"[^A-Za-z0-9_]", "_", n.replace("$", "D_"))
        out.append("Definition %s : N := %d." % (ident, sid[n]))
    # propagate_positions must be exactly what the comments variant adds
    if p.lalr.options.propagate_positions or not pc.lalr.options.propagate_positions:
        raise Unsupported("propagate_positions settings changed")
    import json, os
    from common import GEN
    side = json.dumps({"terms": terms, "nonterms": nonterms, "callbacks": cbnames}, indent=0)
    sp_ = os.path.join(GEN, "grammar_names.json")
    if not os.path.exists(sp_) or open(sp_).read() != side:
        open(sp_, "w").write(side)
    return write_if_changed("Grammar.v", "\n".join(out) + "\n")


if __name__ == "__main__":
    print("Grammar.v", "changed" if main() else "unchanged")
