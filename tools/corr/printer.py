"""Shared machinery for the printer component (observation points O-quot, O-fmt,
O-lines, O-str, O-strip) and the document generators used by C16 / C03 (and
reusable by C01, C04, C06, C13, C14).

Model side: ocaml/printer/driver (coq/Extract/Printer.v, coq/Model/ObsPrinter.v)
  fn 1 O-quot   [quote] + str
  fn 2 O-fmt    [quote] + type_ + attr + value
  fn 3 O-lines  opts + value
  fn 4 O-str    value
  fn 5 O-strip  str
Implementation side: mappyfile.quoter.Quoter, mappyfile.pprint.PrettyPrinter.
"""
import os, glob, copy, logging, itertools, json
from checklib import codec
from checklib.model import run_model

REPO = os.environ.get("VERIF_REPO", "/repo")

EXC = {"IndexError": 4, "KeyError": 5, "AttributeError": 6, "TypeError": 7, "ValueError": 8,
       "AssertionError": 9, "OSError": 10, "UnboundLocalError": 11}
EXC_NAME = {v: k for k, v in EXC.items()}


def exc_code(ex):
    for c in type(ex).__mro__:
        if c.__name__ in EXC:
            return EXC[c.__name__]
    return -2


def quiet():
    logging.getLogger("mappyfile").setLevel(logging.CRITICAL)


# ------------------------------------------------------------------ options
INDENTS = list(range(0, 9))
SPACERS = [" ", "\t"]
QUOTES = ['"', "'"]
NEWLINES = ["\n", "\r\n", " "]


def all_opts():
    for ind, sp, q, nl, ec, al, sc in itertools.product(INDENTS, SPACERS, QUOTES, NEWLINES, (False, True), (False, True), (False, True)):
        yield dict(indent=ind, spacer=sp, quote=q, newlinechar=nl, end_comment=ec, align_values=al, separate_complex_types=sc)


def rand_opts(rng):
    return dict(indent=rng.choice(INDENTS), spacer=rng.choice(SPACERS), quote=rng.choice(QUOTES),
                newlinechar=rng.choice(NEWLINES), end_comment=rng.random() < 0.5,
                align_values=rng.random() < 0.5, separate_complex_types=rng.random() < 0.5)


DEFAULT_OPTS = dict(indent=4, spacer=" ", quote='"', newlinechar="\n", end_comment=False,
                    align_values=False, separate_complex_types=False)


def enc_opts(o):
    return ([o["indent"]] + codec.enc_str(o["spacer"]) + [ord(o["quote"])] + codec.enc_str(o["newlinechar"])
            + [int(o["end_comment"]), int(o["align_values"]), int(o["separate_complex_types"])])


# ------------------------------------------------------------------ implementation side
_VALIDATOR = None


def printer(**opts):
    """A PrettyPrinter sharing one Validator (its schema cache) across cases."""
    global _VALIDATOR
    from mappyfile.pprint import PrettyPrinter
    pp = PrettyPrinter(**opts)
    if _VALIDATOR is None:
        _VALIDATOR = pp.validator
    else:
        pp.validator = _VALIDATOR
    return pp


def impl_quot(q, s):
    from mappyfile.quoter import Quoter
    Q = Quoter(q)
    return (Q.add_quotes(s), Q.add_altquotes(s), bool(Q.in_quotes(s)), Q.escape_quotes(s), Q.remove_quotes(s),
            bool(Q.in_brackets(s)), bool(Q.in_parenthesis(s)), bool(Q.in_braces(s)), bool(Q.in_slashes(s)),
            Q.standardise_quotes(s))


def dec_quot(toks):
    r = codec.Reader(toks)
    return (r.str(), r.str(), r.z() != 0, r.str(), r.str(), r.z() != 0, r.z() != 0, r.z() != 0, r.z() != 0, r.str())


_PP = {}


def impl_fmt(q, type_, attr, value):
    pp = _PP.get(q)
    if pp is None:
        pp = _PP[q] = printer(quote=q)
    try:
        props = pp.get_attribute_properties(type_, attr)
        return ("ok", codec.canon(pp.format_value(attr, props, copy.deepcopy(value))))
    except Exception as ex:
        return ("exc", exc_code(ex))


def dec_res(toks, f):
    r = codec.Reader(toks)
    tag = r.z()
    if tag == 0:
        return ("ok",) + f(r)
    if tag == 1:
        return ("exc", r.z())
    return ("bad", list(toks))


def dec_fmt(toks):
    return dec_res(toks, lambda r: (r.value(),))


def impl_lines(opts, d):
    """(('ok', text, dict-after) | ('exc', code)); d is deep-copied first."""
    d = copy.deepcopy(d)
    try:
        pp = printer(**opts)
        text = pp.pprint(d)
        return ("ok", text, codec.canon(d))
    except Exception as ex:
        return ("exc", exc_code(ex))


def dec_lines(toks):
    return dec_res(toks, lambda r: (r.str(), r.value()))


def model_quot(cases):
    return [dec_quot(t) for t in run_model("printer", [(1, [ord(q)] + codec.enc_str(s)) for q, s in cases])]


def model_fmt(cases):
    return [dec_fmt(t) for t in run_model("printer", [(2, [ord(q)] + codec.enc_str(ty) + codec.enc_str(a) + codec.enc_value(v))
                                                      for q, ty, a, v in cases])]


def model_lines(cases):
    return [dec_lines(t) for t in run_model("printer", [(3, enc_opts(o) + codec.enc_value(d)) for o, d in cases])]


def model_str(values):
    out = []
    for t in run_model("printer", [(4, codec.enc_value(v)) for v in values]):
        r = codec.Reader(t)
        out.append((r.str(), r.str()))
    return out


def model_strip(strs):
    return [codec.Reader(t).str() for t in run_model("printer", [(5, codec.enc_str(s)) for s in strs])]


# ------------------------------------------------------------------ schema walk
def schema_names():
    return sorted(os.path.basename(f)[:-5] for f in glob.glob(os.path.join(REPO, "mappyfile", "schemas", "*.json")))


_SLOTS = None


def slots():
    """[(type, keyword, props)] for every keyword of every object schema, from the real expanded schema."""
    global _SLOTS
    if _SLOTS is None:
        from mappyfile.validator import Validator
        v = Validator()
        out = []
        for n in schema_names():
            s = v.get_expanded_schema(n)
            if isinstance(s, dict) and "properties" in s:
                for k, p in s["properties"].items():
                    out.append((n, k, p))
        _SLOTS = out
    return _SLOTS


def object_types():
    return sorted({t for t, _, _ in slots()})


def flat_alternatives(p, depth=0):
    """Leaf alternatives of a slot schema (oneOf/anyOf/allOf flattened)."""
    if depth > 6 or not hasattr(p, "keys"):
        return []
    out = []
    comb = False
    for k in ("oneOf", "anyOf", "allOf"):
        if k in p:
            comb = True
            for alt in p[k]:
                out += flat_alternatives(alt, depth + 1)
    if not comb:
        out.append(p)
    return out


def first_enum_word(p):
    for a in flat_alternatives(p):
        for e in a.get("enum", []):
            if isinstance(e, str):
                return e
    return None


# designed value-shape set for O-fmt
def fmt_shapes(p):
    from mappyfile.ordereddict import CaseInsensitiveOrderedDict as CI, DefaultOrderedDict as DD
    w = first_enum_word(p) or "on"
    sh = [True, False, 5, 0, -3, 2.5, 1e-07, 1e16, w.lower(), w.upper(), w.capitalize(), "end", "END",
          "abc", "two words", "", 'has"dq', "has'sq", '"dq"', "'sq'", '"a"b"', "'a\\'b'", "[attr]", " [attr] ", "(expr)", "( [a] = 1 )",
          "NOT (expr)", "NOT expr", "/re/", "/re/i", " /re/ ", "'abc'i", '"abc"i', "{a,b}", "#ff0000", "3", "1.5",
          [1, 2, 3], [1.5, -2], ["a", "b"], ["[a]", "[b]"], ["[a]", 2], [], [True, None], [[1, 2]],
          {}, CI(), CI(CI), DD(), {"a": 1}, CI(None, [("k", "v")]), None]
    return sh


# ------------------------------------------------------------------ corpus
_CORPUS_FILES = None


def corpus_files():
    global _CORPUS_FILES
    if _CORPUS_FILES is None:
        fs = []
        for sub in ("tests/sample_maps", "tests/mapfiles", "docs"):
            fs += glob.glob(os.path.join(REPO, sub, "**", "*.map"), recursive=True)
        _CORPUS_FILES = sorted(fs)
    return _CORPUS_FILES


_PARSERS = {}


def parse_file(fn, flags):
    """flags: include_comments = include_position = flags.  None when unparseable."""
    from mappyfile.parser import Parser
    from mappyfile.transformer import MapfileToDict
    p = _PARSERS.get(flags)
    if p is None:
        p = _PARSERS[flags] = Parser(expand_includes=True, include_comments=flags)
    try:
        ast = p.parse_file(fn)
        return MapfileToDict(include_position=flags, include_comments=flags).transform(ast)
    except Exception:
        return None


def corpus_docs(rng, n_files=None, max_size=None):
    """[(name, doc)] for a sample (or all) of the shipped .map files, with comments/position off and on."""
    fs = corpus_files()
    if max_size:
        fs = [f for f in fs if os.path.getsize(f) <= max_size]
    if n_files is not None and n_files < len(fs):
        fs = sorted(rng.sample(fs, n_files))
    out = []
    n_bad = 0
    for f in fs:
        for flags in (False, True):
            d = parse_file(f, flags)
            if d is None:
                n_bad += 1
                continue
            out.append(("%s[%s]" % (os.path.relpath(f, REPO), "c" if flags else "-"), d))
    return out, n_bad


def has_multiline(v):
    """True when some string inside v contains a line break (such documents are excepted from per-line rules)."""
    if isinstance(v, str):
        return "\n" in v or "\r" in v
    if isinstance(v, dict):
        return any(has_multiline(k) or has_multiline(x) for k, x in v.items())
    if isinstance(v, (list, tuple)):
        return any(has_multiline(x) for x in v)
    return False


def strings_of(v, hidden=False):
    """All printed strings of a document (keys of key-value blocks included)."""
    if isinstance(v, str):
        yield v
    elif isinstance(v, dict):
        for k, x in v.items():
            if isinstance(k, str) and k.startswith("__") and k.endswith("__") and not hidden:
                continue
            yield k
            yield from strings_of(x, hidden)
    elif isinstance(v, (list, tuple)):
        for x in v:
            yield from strings_of(x, hidden)


# ------------------------------------------------------------------ schema-generated documents
KEYDICTS = ("metadata", "validation", "values", "connectionoptions")
WORDS = ["abc", "two words", "x", "name_1", "/data/file.shp", "path/to/x.tif", "http://example.com/a?b=1&c=2", "épée", "a-b", "100%", "C:\\tmp\\x"]


def _CI():
    from mappyfile.ordereddict import CaseInsensitiveOrderedDict as CI
    return CI(CI)


def gen_leaf(rng, p, key, depth=0):
    """A value for a leaf slot following one alternative of its schema."""
    alts = flat_alternatives(p) or [{}]
    a = rng.choice(alts)
    if "enum" in a:
        e = rng.choice(a["enum"])
        if isinstance(e, str):
            return rng.choice([e, e.upper(), e.lower()])
        return e
    t = a.get("type")
    if t == "string":
        pat = a.get("pattern", "")
        if pat.startswith("^\\["):
            return "[%s]" % rng.choice(["a", "NAME", "A_b1"])
        if pat.startswith("^\\("):
            return rng.choice(["([a] = 1)", "( [pop] > 100 AND '[name]' = 'x' )", "(\"[a]\" ~ 'b')", "([x] + 1)"])
        if pat.startswith("^/"):
            return rng.choice(["/abc/", "/^a.*b$/", "/a b/"])
        if pat.startswith("^#"):
            return rng.choice(["#ff0000", "#abc", "#aabbccdd"])
        if pat == "^rectangle$":
            return "rectangle"
        if pat.startswith("^&#"):
            return "&#40;"
        if a.get("description") == "expression":
            return rng.choice(["abc", "/re/", "'abc'i", "two words", "/x y/i"])
        return rng.choice(WORDS)
    if t == "number":
        lo = a.get("minimum", -50)
        return rng.choice([lo + 1, lo + 2.5, 10, 0.5 + lo + 1, 255, 1e-05 + lo + 1, 123456.789])
    if t == "integer":
        lo = a.get("minimum", -5)
        return rng.choice([lo, lo + 1, 7, 100])
    if t == "boolean":
        return rng.random() < 0.5
    if t == "array":
        it = a.get("items", {})
        n = rng.randint(a.get("minItems", 1), a.get("maxItems", max(a.get("minItems", 1), 3)))
        if isinstance(it, list):
            return [gen_leaf(rng, x, key, depth + 1) for x in it]
        if depth > 2:
            return [1] * n
        return [gen_leaf(rng, it, key, depth + 1) for _ in range(n)]
    return rng.choice(WORDS)


ODD_VALUES = [None, {}, [], "", 0, True, "(a)", "[a]", "/r/", "{a,b}", ["x", 1], [[1, 2], [3, 4]], 'q"q', "q'q", '"qq"', "'qq'", 1e22, -0.5,
              "NOT (x)", "two\nlines"]


def is_object_schema(p):
    return hasattr(p, "keys") and ("properties" in p or "patternProperties" in p)


def child_kind(key, p):
    """How the printer treats the slot: 'list' (object list), 'object', 'keydict', special block names, or 'leaf'."""
    from mappyfile.tokens import OBJECT_LIST_KEYS, REPEATED_KEYS
    if key in KEYDICTS:
        return "keydict"
    if key in ("projection", "points", "pattern", "config"):
        return key
    if key in REPEATED_KEYS:
        return "repeated"
    if key in OBJECT_LIST_KEYS:
        return "list"
    for a in flat_alternatives(p):
        if is_object_schema(a):
            return "object"
    return "leaf"


def type_of_list_key(key):
    for suffix in ("es", "s"):
        if key.endswith(suffix) and key[:-len(suffix)] in object_types():
            return key[:-len(suffix)]
    return None


def gen_doc(rng, type_="map", depth=0, p_key=0.35, odd=0.0, comments=0.0, cls=None):
    """A schema-generated dictionary for object type type_ (children recursively)."""
    from mappyfile.ordereddict import CaseInsensitiveOrderedDict as CI, DefaultOrderedDict as DD
    props = [(k, p) for t, k, p in slots() if t == type_]
    if cls is None:
        d = _CI()
    else:
        d = cls()
    d["__type__"] = type_
    cm = {}
    if comments and rng.random() < comments:
        cm["__type__"] = rng.choice(["# c", ["# a", "# b"], ["/* c */"]])
    if rng.random() < 0.15:
        d["__position__"] = {"line": 1, "column": 2}
    rng.shuffle(props)
    for k, p in props:
        if k.startswith("__") or rng.random() > p_key:
            continue
        kind = child_kind(k, p)
        if odd and rng.random() < odd:
            d[k] = copy.deepcopy(rng.choice(ODD_VALUES))
            continue
        if kind == "leaf":
            d[k] = gen_leaf(rng, p, k)
            if comments and rng.random() < comments:
                cm[k] = rng.choice(["# k", ["# k1", "# k2"], []])
        elif kind == "list":
            ct = type_of_list_key(k)
            if ct is None or depth >= 3:
                continue
            d[k] = [gen_doc(rng, ct, depth + 1, p_key * 0.6, odd, comments, cls) for _ in range(rng.randint(0, 2))]
        elif kind == "object":
            if depth >= 3 or k not in object_types():
                continue
            d[k] = gen_doc(rng, k, depth + 1, p_key * 0.6, odd, comments, cls)
        elif kind == "keydict":
            kd = _CI()
            kd["__type__"] = k
            for i in range(rng.randint(0, 3)):
                kd[rng.choice(["wms_title", "ows_srs", "a b", "k%d" % i, "default_x"])] = rng.choice(WORDS + ["EPSG:4326 EPSG:3857", "5"])
            if comments and rng.random() < comments:
                kd["__comments__"] = {"__type__": ["# md"], "wms_title": "# t"}
            d[k] = kd
        elif kind == "projection":
            d[k] = rng.choice([["init=epsg:4326"], ["proj=utm", "zone=11", "datum=WGS84"], ["AUTO"], ["auto"], "epsg:3857"])
            if comments and rng.random() < comments:
                cm[k] = ["# proj"]
        elif kind == "points":
            pts = [[rng.randint(-9, 99), rng.choice([1, 2.5, 0])] for _ in range(rng.randint(1, 3))]
            d[k] = rng.choice([pts, [pts, pts[:1]]])
        elif kind == "pattern":
            d[k] = [[rng.randint(1, 9), rng.choice([2, 2.5])] for _ in range(rng.randint(1, 3))]
        elif kind == "config":
            cfg = _CI()
            for i in range(rng.randint(1, 2)):
                cfg[rng.choice(["MS_ERRORFILE", "proj_lib", "ON_MISSING_DATA"])] = rng.choice(["/tmp/x", "IGNORE", "stderr"])
            d[k] = cfg
        elif kind == "repeated":
            d[k] = [rng.choice(["BANDS=1,2,3", "CLOSE_CONNECTION=DEFER", "x.map", "a b"]) for _ in range(rng.randint(1, 3))]
    if cm:
        d["__comments__"] = cm
    return d


# ------------------------------------------------------------------ replay encoding / shrinking of documents
def doc_to_json(v):
    """JSON-able form keeping the dict class (for replay files)."""
    if isinstance(v, dict):
        return {"__cls__": codec.cls_code(v), "items": [[k, doc_to_json(x)] for k, x in v.items()]}
    if isinstance(v, (list, tuple)):
        return [doc_to_json(x) for x in v]
    return v


def doc_from_json(j):
    from mappyfile.ordereddict import CaseInsensitiveOrderedDict as CI, DefaultOrderedDict as DD
    if isinstance(j, dict) and "__cls__" in j:
        items = [(k, doc_from_json(x)) for k, x in j["items"]]
        c = j["__cls__"]
        if c == 0:
            return dict(items)
        if c in (1, 2):
            return DD(CI if c == 2 else None, items)
        return CI(CI if c == 4 else None, items)
    if isinstance(j, list):
        return [doc_from_json(x) for x in j]
    return j


def _variants(v):
    """Smaller variants of a document: drop one key / one list element, recursively."""
    if isinstance(v, dict):
        for k in list(v.keys()):
            if k == "__type__":
                continue
            w = copy.copy(v)
            del w[k]
            yield w
        for k in list(v.keys()):
            for sub in _variants(v[k]):
                w = copy.copy(v)
                w[k] = sub
                yield w
    elif isinstance(v, list):
        for i in range(len(v)):
            yield v[:i] + v[i + 1:]
        for i in range(len(v)):
            for sub in _variants(v[i]):
                yield v[:i] + [sub] + v[i + 1:]


def shrink_doc(doc, fails, max_steps=400):
    """Greedy structural shrinking: keep applying the first smaller variant that still fails."""
    steps = 0
    progress = True
    while progress and steps < max_steps:
        progress = False
        for w in _variants(doc):
            steps += 1
            if steps >= max_steps:
                break
            try:
                bad = fails(w)
            except Exception:
                bad = False
            if bad:
                doc = w
                progress = True
                break
    return doc


# ------------------------------------------------------------------ well-formed Mapfile dictionaries (the quantifier of C16 / C03)
def _scalar(v):
    return isinstance(v, (str, int, float)) and not isinstance(v, bool) or isinstance(v, bool)


def _numlist(v, depth=0):
    if isinstance(v, (int, float)) and not isinstance(v, bool):
        return depth > 0
    return isinstance(v, (list, tuple)) and len(v) > 0 and all(_numlist(x, depth + 1) for x in v)


def wf_doc(d):
    """A dictionary every value of which has a Mapfile form: typed objects, scalar or flat-list keyword
    values, string-valued key-value blocks, numeric POINTS/PATTERN, string PROJECTION / repeated keys."""
    from mappyfile.tokens import OBJECT_LIST_KEYS, REPEATED_KEYS
    if isinstance(d, list):
        return len(d) > 0 and all(isinstance(x, dict) and wf_doc(x) for x in d)
    if not isinstance(d, dict) or not isinstance(d.get("__type__"), str):
        return False
    if d["__type__"] in KEYDICTS:
        return all(isinstance(k, str) and (k.startswith("__") and k.endswith("__") or _scalar(v)) for k, v in d.items())
    for k, v in d.items():
        if not isinstance(k, str) or k == "":
            return False
        if k.startswith("__") and k.endswith("__"):
            continue
        if k in OBJECT_LIST_KEYS:
            if not isinstance(v, list) or not all(isinstance(x, dict) and wf_doc(x) for x in v):
                return False
        elif k in KEYDICTS:
            if not isinstance(v, dict) or not all(isinstance(kk, str) and (kk.startswith("__") and kk.endswith("__") or _scalar(x)) for kk, x in v.items()):
                return False
        elif k in ("pattern", "points"):
            if not _numlist(v):
                return False
        elif k == "projection":
            if not (isinstance(v, str) or isinstance(v, list) and v and all(isinstance(x, str) for x in v)):
                return False
        elif k in REPEATED_KEYS:
            if not (isinstance(v, list) and all(isinstance(x, str) for x in v)):
                return False
        elif k == "config":
            if not (isinstance(v, dict) and all(isinstance(x, str) for x in v.values())):
                return False
        elif isinstance(v, dict):
            if not wf_doc(v):
                return False
        elif isinstance(v, (list, tuple)):
            if not v or not all(_scalar(x) for x in v):
                return False
        elif not _scalar(v):
            return False
    return True
