#!/bin/bash
# re-evaluate every stored seed (patch + demo from /verif/seeded/<name>) against /repo with the current checks
cd /verif
for d in seeded/C*; do
  n=$(basename $d); p=${n:0:3}
  python3 tools/seedtest.py $n /verif/$d $p --skip-tests 2>&1 | tail -4 | head -2 | cut -c1-260
done
