#!/bin/bash
# evaluate seeded changes against /repo (apply, run the property's check, revert)
# usage: seedall.sh <prefix-dir> <suffix> Cxx...   e.g. seedall.sh /tmp/seed_ "" C01 C02 ; seedall.sh /tmp/seed2_ b C01
cd /verif
pre=$1; suf=$2; shift 2
for n in "$@"; do
  python3 tools/seedtest.py $n$suf $pre$n/_seed $n 2>&1 | tail -8
done
