#!/usr/bin/env python3
"""Evaluate a seeded change: verify it independently in a scratch worktree (demo
passes on the pristine tree, fails with the change, the test suite still
passes), then apply it to /repo, run the property's check, undo it, and store
patch / demo / meta under /verif/seeded/<id>/.

usage: seedtest.py <name> <seed_dir> <property> [--skip-tests] [--also Cxx,Cyy] [--tier quick]"""
import sys, os, subprocess, json, shutil, time

ROOT = os.path.dirname(os.path.dirname(os.path.abspath(__file__)))
REPO = "/repo"


def sh(cmd, cwd=None, env=None, timeout=3600):
    p = subprocess.run(cmd, shell=True, cwd=cwd, env=env, stdout=subprocess.PIPE, stderr=subprocess.STDOUT, timeout=timeout)
    return p.returncode, p.stdout.decode(errors="replace")


def main():
    name, seed_dir, prop = sys.argv[1:4]
    opts = sys.argv[4:]
    skip_tests = "--skip-tests" in opts
    also = []
    tier = "quick"
    for i, o in enumerate(opts):
        if o == "--also":
            also = opts[i + 1].split(",")
        if o == "--tier":
            tier = opts[i + 1]
    patch = os.path.join(seed_dir, "patch.diff")
    demo = os.path.join(seed_dir, "demo.py")
    meta = json.load(open(os.path.join(seed_dir, "meta.json"))) if os.path.exists(os.path.join(seed_dir, "meta.json")) else {}
    out = {"property": prop, "name": name, "summary": meta.get("summary"), "needs": meta.get("needs"), "files": meta.get("files")}
    # ---- independent verification in a scratch worktree
    scratch = "/tmp/seedcheck_%s" % name
    sh("git -C %s worktree remove --force %s" % (REPO, scratch))
    rc, o = sh("git -C %s worktree add -q %s HEAD" % (REPO, scratch))
    assert rc == 0, o
    try:
        env = dict(os.environ, PYTHONPATH=scratch, PYTHONDONTWRITEBYTECODE="1")
        # the demo is run from a copy inside the scratch tree (some demos put their parent directory on sys.path)
        os.makedirs(os.path.join(scratch, "_seedcopy"), exist_ok=True)
        demo_copy = os.path.join(scratch, "_seedcopy", "demo.py")
        shutil.copy(demo, demo_copy)
        rc0, o0 = sh("/venv/bin/python %s" % demo_copy, cwd=scratch, env=env, timeout=900)
        rca, oa = sh("git apply %s" % patch, cwd=scratch)
        rc1, o1 = sh("/venv/bin/python %s" % demo_copy, cwd=scratch, env=env, timeout=900)
        out["demo_pristine_rc"] = rc0
        out["demo_patched_rc"] = rc1
        out["patch_applies"] = rca == 0
        if not skip_tests:
            rct, ot = sh("/venv/bin/python -m pytest -q -p no:cacheprovider --timeout=900 --deselect tests/test_map_collection.py::test_maps 2>&1 | tail -3", cwd=scratch, env=env, timeout=1800)
            out["tests_tail"] = ot.strip().splitlines()[-1] if ot.strip() else ""
            out["tests_ok"] = "249 passed" in ot and " failed" not in ot and " error" not in ot
    finally:
        sh("git -C %s worktree remove --force %s" % (REPO, scratch))
    out["verified"] = bool(out["patch_applies"] and out["demo_pristine_rc"] == 0 and out["demo_patched_rc"] != 0 and (skip_tests or out.get("tests_ok")))
    # ---- run the checks against /repo with the change applied
    rc, o = sh("git status --porcelain", cwd=REPO)
    assert o.strip() == "", "/repo is not clean: " + o
    rc, o = sh("git apply %s" % patch, cwd=REPO)
    assert rc == 0, o
    results = {}
    try:
        for p in [prop] + also:
            t0 = time.time()
            rc, o = sh("./check %s --tier %s" % (p, tier), cwd=ROOT, timeout=3600)
            lines = [l for l in o.splitlines() if l.startswith("VIOLATION") or l.startswith("  (")]
            results[p] = {"rc": rc, "wall_s": round(time.time() - t0, 1), "violations": lines[:8], "summary": o.strip().splitlines()[-1] if o.strip() else ""}
    finally:
        sh("git checkout -- .", cwd=REPO)
        rc, o = sh("git status --porcelain", cwd=REPO)
        assert o.strip() == "", "could not restore /repo: " + o
    out["checks"] = results
    out["detected_by_own_check"] = results[prop]["rc"] != 0
    out["ran"] = "tools/seedtest.py %s" % " ".join(sys.argv[1:])
    dest = os.path.join(ROOT, "seeded", name)
    os.makedirs(dest, exist_ok=True)
    if os.path.abspath(seed_dir) != os.path.abspath(dest):
        shutil.copy(patch, os.path.join(dest, "patch.diff"))
        shutil.copy(demo, os.path.join(dest, os.path.basename(demo)))
    if skip_tests:
        # a re-evaluation of a stored seed: the test-suite result was established when it was first stored
        for k in ("tests_tail", "tests_ok"):
            if k in meta:
                out[k] = meta[k]
        out["verified"] = bool(out["verified"] and meta.get("tests_ok", True))
    json.dump(out, open(os.path.join(dest, "meta.json"), "w"), indent=1)
    print(json.dumps({k: out[k] for k in ("name", "verified", "detected_by_own_check")}), results[prop]["summary"])
    for l in results[prop]["violations"][:6]:
        print("   ", l[:200])


if __name__ == "__main__":
    main()
